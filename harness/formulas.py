"""Formula slices: straight-line arithmetic and decision code of /repo translated, statement by statement, into Lean
definitions over exact rationals (lean/GGen/Formulas*.lean).  Used by harness/translate.py.

The translator is a small symbolic executor over the Python AST:

  * names bound by earlier assignments are inlined; function arguments listed in the slice's `params` stay symbolic;
  * sub-expressions listed in the slice's `opaque` table (matched on `ast.unparse` text, e.g. ``lattice.volume`` or
    ``np.min(pdist[np.triu_indices_from(pdist, k=1)])``) are the slice's INPUTS and become parameters;
  * an assignment whose right-hand side is neither arithmetic nor an input makes its target *opaque*; using an opaque
    name in arithmetic later is an error (the slice no longer computes what the obligation is about);
  * `if` with arithmetic test: both branches executed, assigned names merged with if-then-else; an `if` body ending in
    `raise` contributes its path condition to the error guard (result type Option);
  * `x[x >= 1] = 0`-style masked assignment becomes an if-then-else on the element;
  * anything else (early return, loops, calls with effects not listed in `skip`) is Untranslatable.

A slice that cannot be translated is written as a stub without definitions, so that exactly the proof module that
states its obligation stops building.
"""

from __future__ import annotations

import ast
from fractions import Fraction
from pathlib import Path

REPO_SRC = Path('/repo/src/gemdat')


class Untranslatable(Exception):
    pass


OPAQUE = object()
CMP = {ast.NotEq: '≠', ast.Eq: '=', ast.GtE: '≥', ast.Gt: '>', ast.Lt: '<', ast.LtE: '≤'}
BIN = {ast.Add: '+', ast.Sub: '-', ast.Mult: '*', ast.Div: '/'}


def rat_literal(v) -> str:
    if isinstance(v, bool):
        raise Untranslatable('bool constant')
    if isinstance(v, int):
        return f'({v} : Rat)'
    if isinstance(v, float):
        q = Fraction(repr(v))  # the decimal literal as written, exactly
        return f'({q.numerator} / {q.denominator} : Rat)' if q.denominator != 1 else f'({q.numerator} : Rat)'
    raise Untranslatable(f'constant {v!r}')


class Slice:
    def __init__(self, params, opaque=None, skip=(), wrappers=('FloatWithUnit', 'np.array', 'np.asarray', 'float'), inputs=()):
        self.params = list(params)
        self.opaque = dict(opaque or {})
        self.skip = set(skip)
        self.inputs = set(inputs)  # local names that are inputs of the slice even though assigned from non-arithmetic code
        self.wrappers = set(wrappers)
        self.flags = {}
        self.ast_env = {}  # local names assigned from non-arithmetic code -> that code (so that an input is recognised through helper variables)
        self.opaque_canon = {self.canon(ast.parse(k, mode='eval').body, depth=0): v for k, v in self.opaque.items()}

    REDUCTIONS = {'sum', 'mean', 'min', 'max', 'std', 'prod'}

    def canon(self, node, depth=5):
        """canonical source text of an expression: helper variables that stand for non-arithmetic code replaced by that code, `x.sum(…)`
        written as `np.sum(x, …)` (same for mean / min / max / std / prod), `np.asarray` as `np.array`"""
        import copy
        outer = self

        class T(ast.NodeTransformer):
            def __init__(self, d):
                self.d = d

            def visit_Name(self, n):
                if isinstance(n.ctx, ast.Load) and n.id in outer.ast_env and self.d > 0:
                    return T(self.d - 1).visit(copy.deepcopy(outer.ast_env[n.id]))
                return n

            def visit_Call(self, n):
                self.generic_visit(n)
                f = n.func
                if isinstance(f, ast.Attribute) and f.attr in outer.REDUCTIONS and not (isinstance(f.value, ast.Name) and f.value.id == 'np'):
                    return ast.Call(func=ast.Attribute(value=ast.Name(id='np', ctx=ast.Load()), attr=f.attr, ctx=ast.Load()),
                                    args=[f.value] + n.args, keywords=n.keywords)
                if isinstance(f, ast.Attribute) and isinstance(f.value, ast.Name) and f.value.id == 'np' and f.attr == 'asarray':
                    f.attr = 'array'
                return n

        return ast.unparse(ast.fix_missing_locations(T(depth).visit(copy.deepcopy(node))))

    # ---------------------------------------------------------------- expressions
    def arith(self, node, env) -> str:
        src = ast.unparse(node)
        p = self.opaque.get(src)
        if p is None and not isinstance(node, ast.Constant):
            # first with the helper variables left as they are, then with them replaced by what they stand for
            p = self.opaque_canon.get(self.canon(node, depth=0)) or self.opaque_canon.get(self.canon(node))
        if p is not None:
            if p not in self.params:
                raise Untranslatable(f'input {p} not declared')
            return p
        if isinstance(node, ast.Name):
            if node.id in env:
                v = env[node.id]
                if v is OPAQUE:
                    raise Untranslatable(f'`{node.id}` is used in arithmetic but was computed by code outside the slice')
                return v
            if node.id in self.params:
                return node.id
            raise Untranslatable(f'free name `{node.id}`')
        if isinstance(node, ast.Constant):
            return rat_literal(node.value)
        if isinstance(node, ast.UnaryOp) and isinstance(node.op, ast.USub):
            return f'(-{self.arith(node.operand, env)})'
        if isinstance(node, ast.BinOp):
            if type(node.op) in BIN:
                return f'({self.arith(node.left, env)} {BIN[type(node.op)]} {self.arith(node.right, env)})'
            if isinstance(node.op, ast.FloorDiv):
                return f'(((({self.arith(node.left, env)}) / ({self.arith(node.right, env)})).floor : Int) : Rat)'
            if isinstance(node.op, ast.Pow) and isinstance(node.right, ast.Constant) and isinstance(node.right.value, int) and node.right.value >= 0:
                return f'({self.arith(node.left, env)} ^ {node.right.value})'
            raise Untranslatable(f'operator {type(node.op).__name__}')
        if isinstance(node, ast.Compare):
            parts, left = [], node.left
            for op, right in zip(node.ops, node.comparators):
                if type(op) not in CMP:
                    raise Untranslatable(f'comparison {type(op).__name__}')
                parts.append(f'{self.arith(left, env)} {CMP[type(op)]} {self.arith(right, env)}')
                left = right
            return '(' + ' ∧ '.join(parts) + ')'
        if isinstance(node, ast.Call):
            fn = ast.unparse(node.func)
            if fn in self.wrappers and node.args:
                return self.arith(node.args[0], env)
            if fn == 'np.mod' and len(node.args) == 2 and isinstance(node.args[1], ast.Constant) and node.args[1].value == 1:
                return f'(G.wrap {self.arith(node.args[0], env)})'
            if fn == 'np.where' and len(node.args) == 3:
                return (f'(if {self.arith(node.args[0], env)} then {self.arith(node.args[1], env)} '
                        f'else {self.arith(node.args[2], env)})')
            if fn in ('np.round', 'np.around', 'np.rint') and len(node.args) == 1:
                return f'((G.rne {self.arith(node.args[0], env)} : Int) : Rat)'
            if fn == 'int' and len(node.args) == 1:
                return f'(G.truncZ {self.arith(node.args[0], env)})'
            if fn in ('ceil', 'math.ceil', 'np.ceil') and len(node.args) == 1:
                return f'(G.ceilZ {self.arith(node.args[0], env)})'
            if fn == 'np.nan_to_num' and len(node.args) == 1:
                self.flags.setdefault('nan_to_num_args', []).append(ast.unparse(node.args[0]))
                return self.arith(node.args[0], env)
            if isinstance(node.func, ast.Attribute) and node.func.attr == 'astype' and len(node.args) == 1 and ast.unparse(node.args[0]) == 'int':
                return f'(G.truncZ {self.arith(node.func.value, env)})'
        raise Untranslatable(f'expression `{src[:70]}`')

    # ---------------------------------------------------------------- statements
    def block(self, stmts, env, path, st):
        """executes stmts on env (mutated).  st: {'raises': [...], 'result': None, 'stores': {}}"""
        for k, s in enumerate(stmts):
            if isinstance(s, ast.Expr):
                if isinstance(s.value, ast.Constant) and isinstance(s.value.value, str):
                    continue  # docstring
                if ast.unparse(s.value) in self.skip:
                    continue
                raise Untranslatable(f'statement `{ast.unparse(s)[:60]}`')
            if isinstance(s, ast.Assign) and len(s.targets) == 1:
                tg = s.targets[0]
                if isinstance(tg, ast.Name):
                    try:
                        env[tg.id] = self.arith(s.value, env)
                        self.ast_env.pop(tg.id, None)
                    except Untranslatable:
                        env[tg.id] = tg.id if tg.id in self.inputs and tg.id in self.params else OPAQUE
                        if env[tg.id] is OPAQUE:
                            self.ast_env[tg.id] = s.value
                    continue
                if isinstance(tg, ast.Tuple) and all(isinstance(e, ast.Name) for e in tg.elts):
                    for e in tg.elts:
                        env[e.id] = e.id if e.id in self.inputs and e.id in self.params else OPAQUE
                    continue
                if isinstance(tg, ast.Subscript) and isinstance(tg.value, ast.Name) and tg.value.id in env and env[tg.value.id] is not OPAQUE \
                        and (isinstance(tg.slice, ast.Compare) or (isinstance(tg.slice, ast.Name) and isinstance(env.get(tg.slice.id), str)
                                                                    and any(o in env[tg.slice.id] for o in CMP.values()))):
                    v = tg.value.id  # x[cond(x)] = value, element-wise (the mask may have been given a name first)
                    cond = self.arith(tg.slice, env)
                    env[v] = f'(if {cond} then {self.arith(s.value, env)} else {env[v]})'
                    continue
                if isinstance(tg, ast.Attribute):
                    try:
                        st['stores'][ast.unparse(tg)] = self.arith(s.value, env)
                    except Untranslatable:
                        st['stores'][ast.unparse(tg)] = OPAQUE
                    continue
                raise Untranslatable(f'assignment `{ast.unparse(s)[:60]}`')
            if isinstance(s, ast.AugAssign) and isinstance(s.target, ast.Name) and type(s.op) in BIN:
                cur = self.arith(s.target, env)
                env[s.target.id] = f'({cur} {BIN[type(s.op)]} {self.arith(s.value, env)})'
                continue
            if isinstance(s, ast.If):
                if ast.unparse(s.test) in self.skip and s.body and isinstance(s.body[-1], ast.Raise) and not s.orelse:
                    continue  # a declared precondition guard
                cond = self.arith(s.test, env)
                if s.body and isinstance(s.body[-1], ast.Raise):
                    if s.orelse:
                        raise Untranslatable('else after a raising branch')
                    st['raises'].append(' ∧ '.join(path + [cond]))
                    continue
                e1, e2 = dict(env), dict(env)
                self.block(s.body, e1, path + [cond], st)
                self.block(s.orelse, e2, path + [f'¬ {cond}'], st)
                for name in set(e1) | set(e2):
                    a, b = e1.get(name, env.get(name)), e2.get(name, env.get(name))
                    if a is None or b is None:
                        # assigned in one branch only and undefined before: defined on that path only
                        env[name] = a if b is None else b
                    elif a is OPAQUE or b is OPAQUE:
                        env[name] = OPAQUE
                    elif a != b:
                        env[name] = f'(if {cond} then {a} else {b})'
                    else:
                        env[name] = a
                continue
            if isinstance(s, ast.Return) and not path and k == len(stmts) - 1:
                st['result_node'] = s.value
                continue
            raise Untranslatable(f'statement `{ast.unparse(s)[:60]}` ({type(s).__name__})')


def find_function(tree, qualname):
    parts = qualname.split('.')
    scope = tree.body
    node = None
    for p in parts:
        node = next((n for n in scope if isinstance(n, (ast.FunctionDef, ast.ClassDef)) and n.name == p), None)
        if node is None:
            raise Untranslatable(f'{qualname} not found')
        scope = node.body
    return node


def lean_def(name, params, ty, body, doc):
    ps = ' '.join(params)
    sig = f'({ps} : Rat) ' if params else ''
    return f'/-- {doc} -/\ndef {name} {sig}: {ty} :=\n  {body}\n'


def straight_line(file, qualname, name, params, opaque=None, skip=(), result='return', doc='', inputs=()):
    """translate a whole function body; result: 'return' | 'store:<attr>' | 'var:<name>'"""
    tree = ast.parse((REPO_SRC / file).read_text())
    fn = find_function(tree, qualname)
    sl = Slice(params, opaque, skip, inputs=inputs)
    env, st = {}, {'raises': [], 'stores': {}, 'result_node': None}
    sl.block(fn.body, env, [], st)
    if result == 'return':
        if st['result_node'] is None:
            raise Untranslatable('no final return')
        res = sl.arith(st['result_node'], env)
    elif result.startswith('store:'):
        res = st['stores'].get(result[6:])
        if res is None or res is OPAQUE:
            raise Untranslatable(f'{result[6:]} is not assigned an arithmetic value')
    else:
        res = env.get(result[4:])
        if res is None or res is OPAQUE:
            raise Untranslatable(f'{result[4:]} is not an arithmetic value')
    is_int = res.startswith('(G.truncZ') or res.startswith('(G.ceilZ')
    ty = 'Int' if is_int else 'Rat'
    if st['raises']:
        guard = ' ∨ '.join(f'({r})' for r in st['raises'])
        body = f'if {guard} then none else some {res}'
        ty = f'Option {ty}'
    else:
        body = res
    return lean_def(name, params, ty, body, doc or f'{file}: {qualname}'), sl.flags


HEADER = ('import GModel.Basic\n'
          '/-! GENERATED by harness/translate.py (harness/formulas.py) from /repo/src/gemdat — do not edit.\n'
          'Straight-line arithmetic / decision code translated statement by statement; inputs computed elsewhere (array\n'
          'reductions, library calls) are parameters.  `Rat` stands for the real number a float approximates. -/\n'
          'namespace G.Gen\n\n')


def stub(reason):
    return ('/-! GENERATED by harness/translate.py — the source could NOT be translated:\n' + reason.replace('-/', '- /') +
            '\nNo definitions are emitted, so the proof module stating this slice\'s obligations does not build. -/\n')


# ---------------------------------------------------------------------------------------------- the slices

def slice_c01():
    d, _ = straight_line('trajectory.py', 'Trajectory.to_positions', 'toPositionsCoord', ['x'],
                         opaque={'self.coords': 'x'}, skip={'super().to_positions()'}, result='store:self.coords',
                         doc='trajectory.py Trajectory.to_positions, per coordinate, after pymatgen summed the displacements: `x` is the raw coordinate')
    return HEADER + d + '\nend G.Gen\n'


def slice_c02():
    d, _ = straight_line('transitions.py', '_compute_site_radius', 'autoRadius', ['vibration_amplitude', 'min_dist'],
                         opaque={'np.min(pdist[np.triu_indices_from(pdist, k=1)])': 'min_dist'},
                         doc='transitions.py _compute_site_radius: `min_dist` is the smallest site separation; `none` = the ValueError branch')
    return HEADER + d + '\n' + slice_c02b() + '\nend G.Gen\n'


def slice_c08():
    a, _ = straight_line('volume.py', 'Volume.voxel_to_frac_coords', 'voxelToFrac', ['voxel', 'dims'],
                         opaque={'np.array(voxel)': 'voxel', 'np.array(self.dims)': 'dims'}, doc='volume.py Volume.voxel_to_frac_coords, per axis')
    b, _ = straight_line('volume.py', 'Volume.frac_coords_to_voxel', 'fracToVoxel', ['frac_coords', 'dims'],
                         opaque={'np.array(frac_coords)': 'frac_coords', 'np.array(self.dims)': 'dims'},
                         doc='volume.py Volume.frac_coords_to_voxel, per axis (`astype(int)` truncates toward zero)')
    c, _ = straight_line('volume.py', 'Volume.voxel_size', 'voxelSize', ['length', 'dims'],
                         opaque={'np.array(self.lattice.lengths)': 'length', 'self.dims': 'dims'}, doc='volume.py Volume.voxel_size, per axis')
    return HEADER + a + '\n' + b + '\n' + c + '\n' + slice_c08b() + '\nend G.Gen\n'


def slice_c09():
    tree = ast.parse((REPO_SRC / 'volume.py').read_text())
    fn = find_function(tree, 'Volume.get_free_energy')
    sl = Slice(['temperature', 'kB', 'log_p'], {'np.log(prob)': 'log_p', "physical_constants['Boltzmann constant in eV/K'][0]": 'kB'})
    env, st = {}, {'raises': [], 'stores': {}, 'result_node': None}
    sl.block(fn.body, env, [], st)
    ret = st['result_node']
    if not (isinstance(ret, ast.Call) and ast.unparse(ret.func) == 'FreeEnergyVolume'):
        raise Untranslatable('get_free_energy does not return FreeEnergyVolume(...)')
    data = next((k.value for k in ret.keywords if k.arg == 'data'), None)
    if data is None:
        raise Untranslatable('no data= keyword')
    res = sl.arith(data, env)
    # is np.nan_to_num applied to the finished value (outermost call of data=), and nowhere else?
    outer = isinstance(data, ast.Call) and ast.unparse(data.func) == 'np.nan_to_num'
    n_calls = sum(1 for n in ast.walk(fn) if isinstance(n, ast.Call) and ast.unparse(n.func) == 'np.nan_to_num')
    flag = 'true' if outer and n_calls == 1 else 'false'
    d = lean_def('freeEnergy', sl.params, 'Rat', res, 'volume.py Volume.get_free_energy, per voxel: `log_p` = np.log(probability), `kB` in eV/K')
    d += ('\n/-- `np.nan_to_num` (which replaces the infinity of a never-visited voxel by the largest finite double) is applied to the\n'
          'FINISHED free energy, after the scaling by k_B T, and nowhere else -/\n'
          f'def nanToNumOutermost : Bool := {flag}\n')
    return HEADER + d + '\nend G.Gen\n'


def slice_c10():
    tree = ast.parse((REPO_SRC / 'path.py').read_text())
    fn = find_function(tree, 'free_energy_graph')
    loops = [n for n in ast.walk(fn) if isinstance(n, ast.For)]
    node_loop = next((n for n in loops if 'ndenumerate' in ast.unparse(n.iter)), None)
    if node_loop is None or not (len(node_loop.body) == 1 and isinstance(node_loop.body[0], ast.If) and not node_loop.body[0].orelse):
        raise Untranslatable('node loop of free_energy_graph: expected `for index, Fi in np.ndenumerate(data): if <test>: G.add_node(...)`')
    tgt = node_loop.target
    fi = tgt.elts[1].id if isinstance(tgt, ast.Tuple) and len(tgt.elts) == 2 and isinstance(tgt.elts[1], ast.Name) else None
    if fi is None:
        raise Untranslatable('node loop target')
    sl = Slice([fi, 'max_energy_threshold'])
    cond = sl.arith(node_loop.body[0].test, {})
    out = f'/-- path.py free_energy_graph: the test under which a voxel becomes a graph node -/\ndef isNode ({fi} max_energy_threshold : Rat) : Bool :=\n  decide {cond}\n'
    # edge weights
    inner = next((n for n in ast.walk(fn) if isinstance(n, ast.If) and ast.unparse(n.test) == 'neighbor in G.nodes'), None)
    if inner is None:
        raise Untranslatable('edge block `if neighbor in G.nodes:` not found')
    sl2 = Slice(['a', 'b', 'exp_w', 'max_energy_threshold'], {'data[node]': 'a', 'data[neighbor]': 'b', 'np.exp(weight)': 'exp_w'})
    env, st = {}, {'raises': [], 'stores': {}, 'result_node': None}
    body = list(inner.body)
    add = body[-1]
    if not (isinstance(add, ast.Expr) and isinstance(add.value, ast.Call) and ast.unparse(add.value.func) == 'G.add_edge'):
        raise Untranslatable('edge block does not end with G.add_edge(...)')
    sl2.block(body[:-1], env, [], st)
    kws = {k.arg: k.value for k in add.value.keywords}
    if set(kws) != {'weight', 'weight_exp'}:
        raise Untranslatable(f'G.add_edge keywords {sorted(kws)}')
    w = sl2.arith(kws['weight'], env)
    we = sl2.arith(kws['weight_exp'], env)
    out += ('\n/-- path.py free_energy_graph: `weight` of the edge between voxels of energy `a`, `b` -/\n'
            f'def edgeWeight (a b exp_w max_energy_threshold : Rat) : Rat :=\n  {w}\n'
            '\n/-- … and its `weight_exp`, `exp_w` = np.exp(weight) -/\n'
            f'def edgeWeightExp (a b exp_w max_energy_threshold : Rat) : Rat :=\n  {we}\n')
    # scan over the peaks in optimal_percolating_path
    fn2 = find_function(tree, 'optimal_percolating_path')
    loop = next((n for n in fn2.body if isinstance(n, ast.For) and ast.unparse(n.iter) == 'peaks'), None)
    if loop is None:
        raise Untranslatable('`for start_point in peaks` not found')
    tr = next((n for n in loop.body if isinstance(n, ast.Try)), None)
    if tr is None or len(tr.handlers) != 1 or len(tr.handlers[0].body) != 1 or not isinstance(tr.handlers[0].body[0], (ast.Continue, ast.Break)):
        raise Untranslatable('peak loop: expected try/except with a single continue/break handler')
    act = 'cont' if isinstance(tr.handlers[0].body[0], ast.Continue) else 'brk'
    tail = loop.body[loop.body.index(tr) + 1:]
    if not (len(tail) == 2 and isinstance(tail[0], ast.Assign) and ast.unparse(tail[0]) == 'cost = path.total_energy' and isinstance(tail[1], ast.If)
            and not tail[1].orelse and {ast.unparse(s) for s in tail[1].body} == {'best_cost = cost', 'best_path = path'}):
        raise Untranslatable('peak loop: expected `cost = path.total_energy` followed by `if <test>: best_cost = cost; best_path = path`')
    sl3 = Slice(['cost', 'best_cost'])
    better = sl3.arith(tail[1].test, {})
    out += ('\n/-- path.py optimal_percolating_path: what the scan does with a peak that has no percolating path -/\n'
            'inductive PeakAct where\n  | cont | brk\nderiving Repr, DecidableEq\n'
            f'def peakNoPath : PeakAct := .{act}\n'
            '\n/-- … and when a peak\'s path replaces the best one so far -/\n'
            f'def peakBetter (cost best_cost : Rat) : Bool :=\n  decide {better}\n')
    return HEADER + out + '\n' + slice_c10b() + '\nend G.Gen\n'


def slice_c14():
    M = 'metrics.py'
    a, _ = straight_line(M, 'TrajectoryMetrics.particle_density', 'particleDensity', ['n_atoms', 'volume_ang', 'angstrom'],
                         opaque={'len(self.trajectory.species)': 'n_atoms', 'lattice.volume': 'volume_ang'},
                         doc='metrics.py particle_density: `volume_ang` = Lattice.volume = |det| of the cell')
    b, _ = straight_line(M, 'TrajectoryMetrics.mol_per_liter', 'molPerLiter', ['particle_density', 'Avogadro'],
                         opaque={'self.particle_density()': 'particle_density'}, doc='metrics.py mol_per_liter')
    c, _ = straight_line(M, 'TrajectoryMetrics.tracer_diffusivity', 'tracerDiffusivity', ['msd', 'angstrom', 'dimensions', 'total_time'],
                         opaque={'np.mean(distances[:, -1] ** 2)': 'msd', 'self.trajectory.total_time': 'total_time'},
                         doc='metrics.py tracer_diffusivity: `msd` = mean over atoms of the final squared distance')
    d, _ = straight_line(M, 'TrajectoryMetrics.tracer_conductivity', 'tracerConductivity',
                         ['elementary_charge', 'z_ion', 'tracer_diffusivity', 'particle_density', 'Boltzmann', 'temperature'],
                         opaque={"self.trajectory.metadata['temperature']": 'temperature', 'self.tracer_diffusivity(dimensions=dimensions)': 'tracer_diffusivity',
                                 'self.particle_density()': 'particle_density'}, doc='metrics.py tracer_conductivity')
    e, _ = straight_line(M, 'TrajectoryMetrics.haven_ratio', 'havenRatio', ['tracer_diffusivity', 'tracer_diffusivity_com'],
                         opaque={'self.tracer_diffusivity(dimensions=dimensions)': 'tracer_diffusivity',
                                 'self.tracer_diffusivity_center_of_mass(dimensions=dimensions)': 'tracer_diffusivity_com'},
                         doc='metrics.py haven_ratio: both diffusivities are requested with the caller\'s `dimensions`')
    # tracer_diffusivity_center_of_mass: the diffusivity of the centre-of-mass trajectory, requested with the caller's `dimensions`
    tree = ast.parse((REPO_SRC / M).read_text())
    fn = find_function(tree, 'TrajectoryMetrics.tracer_diffusivity_center_of_mass')
    ret = fn.body[-1]
    fwd = (isinstance(ret, ast.Return) and isinstance(ret.value, ast.Call) and isinstance(ret.value.func, ast.Attribute)
           and ret.value.func.attr == 'tracer_diffusivity' and not ret.value.args
           and [(k.arg, ast.unparse(k.value)) for k in ret.value.keywords] == [('dimensions', 'dimensions')])
    f = ('/-- metrics.py tracer_diffusivity_center_of_mass returns `<metrics of the centre of mass>.tracer_diffusivity(dimensions=dimensions)` -/\n'
         f'def comForwardsDimensions : Bool := {"true" if fwd else "false"}\n')
    return HEADER + '\n'.join([a, b, c, d, e, f]) + '\nend G.Gen\n'


def slice_c05():
    d, _ = straight_line('jumps.py', 'Jumps.jump_diffusivity', 'jumpDiffusivity', ['sum_sq', 'angstrom', 'dimensions', 'n_floating', 'total_time'],
                         opaque={'np.sum(pdist ** 2 * self.matrix())': 'sum_sq', 'self.trajectory.total_time': 'total_time', 'self.n_floating': 'n_floating'},
                         doc='jumps.py jump_diffusivity: `sum_sq` = Σ_ij (site distance)² × jump count')
    return HEADER + d + '\n' + slice_c05b() + '\n' + slice_c05c() + '\nend G.Gen\n'


def assigned_text(fn, name):
    """source text of every right-hand side assigned to the local `name` in fn"""
    return [ast.unparse(n.value) for n in ast.walk(fn) if isinstance(n, ast.Assign) and len(n.targets) == 1
            and isinstance(n.targets[0], ast.Name) and n.targets[0].id == name]


def resolved_text(fn, node_or_name, depth=6):
    """source text of an expression (or of the value assigned to a local name) with every local name that is assigned exactly once
    (by a plain `name = expr`) replaced by its expression, recursively: robust against renaming / introducing local variables"""
    single = {}
    counts = {}
    for n in ast.walk(fn):
        if isinstance(n, ast.Assign) and len(n.targets) == 1 and isinstance(n.targets[0], ast.Name):
            counts[n.targets[0].id] = counts.get(n.targets[0].id, 0) + 1
            single[n.targets[0].id] = n.value
        elif isinstance(n, (ast.AugAssign, ast.For, ast.With)) or (isinstance(n, ast.Assign) and not isinstance(n.targets[0], ast.Name)):
            for t in ast.walk(n.target if hasattr(n, 'target') else n.targets[0] if isinstance(n, ast.Assign) else n):
                if isinstance(t, ast.Name) and isinstance(getattr(t, 'ctx', None), ast.Store):
                    counts[t.id] = counts.get(t.id, 0) + 2
    single = {k: v for k, v in single.items() if counts.get(k) == 1}

    class Sub(ast.NodeTransformer):
        def __init__(self, d):
            self.d = d

        def visit_Name(self, node):
            if isinstance(node.ctx, ast.Load) and node.id in single and self.d > 0:
                import copy
                return Sub(self.d - 1).visit(copy.deepcopy(single[node.id]))
            return node

    import copy
    if isinstance(node_or_name, str):
        if node_or_name not in single:
            return None
        node = copy.deepcopy(single[node_or_name])
    else:
        node = copy.deepcopy(node_or_name)
    return ast.unparse(Sub(depth).visit(node))


# flags that only record, by comparing source text, how the ARRAY code around a slice is written.  They carry no proof content (the array
# code is tied to the model by the correspondence checks), so they are not obligations: when one changes the check runs its failing-input
# search with the enlarged budget and reports the change as a note, not as a violation.
NOTE_FLAGS = {'ratesCountPerPart', 'windowFromAttemptFrequency', 'splitPartsAreSlices', 'binsAreArange', 'countsAreHistogram', 'edgesAreUniformDropFirst',
              'indicesAreDigitize', 'countsAreUniqueRows', 'samplesAreAllPositions', 'stepsInOrder', 'centredOnSite', 'directionsFromWrappedPositions',
              'trackIsUnwrappedCartesian', 'autocorrelationZeroPaddedToTwiceFrames', 'windowCountsAreFramesMinusLag', 'squaredLengthRecursion', 'returnsMsd',
              'limitsDefaultToUnbounded', 'graphInputsFromThisAnalysis'}


def flag(name, value, doc):
    kind = 'STRUCTURE NOTE (search trigger, not an obligation): ' if name in NOTE_FLAGS else ''
    return f'/-- {kind}{doc} -/\ndef {name} : Bool := {"true" if value else "false"}\n'


def changed_notes(slice_names):
    """names of structure notes that are `false` in the generated files of these slices"""
    out = []
    for nm in slice_names:
        f = Path(__file__).resolve().parents[1] / 'lean' / 'GGen' / f'{nm}.lean'
        if f.exists():
            import re as _re
            out += [m.group(1) for m in _re.finditer(r'^def (\w+) : Bool := false$', f.read_text(), _re.M) if m.group(1) in NOTE_FLAGS]
    return out


def int_expr(node, names):
    if isinstance(node, ast.Name) and node.id in names:
        return node.id
    if isinstance(node, ast.Constant) and isinstance(node.value, int) and not isinstance(node.value, bool):
        return f'({node.value} : Int)'
    if isinstance(node, ast.BinOp) and type(node.op) in (ast.Mod, ast.Add, ast.Sub, ast.Mult):
        op = {ast.Mod: '%', ast.Add: '+', ast.Sub: '-', ast.Mult: '*'}[type(node.op)]
        return f'({int_expr(node.left, names)} {op} {int_expr(node.right, names)})'
    raise Untranslatable(f'integer expression `{ast.unparse(node)[:60]}`')


def slice_c10b():
    tree = ast.parse((REPO_SRC / 'path.py').read_text())
    fn = find_function(tree, 'Pathway.wrapped_sites')
    unpack = next((n for n in fn.body if isinstance(n, ast.Assign) and isinstance(n.targets[0], ast.Tuple) and ast.unparse(n.value) == 'self.dims'), None)
    ret = fn.body[-1]
    if unpack is None or not (isinstance(ret, ast.Return) and isinstance(ret.value, ast.ListComp) and len(ret.value.generators) == 1):
        raise Untranslatable('wrapped_sites: expected `<dims> = self.dims` and `return [<tuple> for <x, y, z> in self.sites]`')
    gen = ret.value.generators[0]
    if ast.unparse(gen.iter) != 'self.sites' or gen.ifs or not isinstance(gen.target, ast.Tuple) or not isinstance(ret.value.elt, ast.Tuple):
        raise Untranslatable('wrapped_sites: comprehension shape')
    dims = [e.id for e in unpack.targets[0].elts]
    xyz = [e.id for e in gen.target.elts]
    if len(dims) != 3 or len(xyz) != 3 or len(ret.value.elt.elts) != 3:
        raise Untranslatable('wrapped_sites: three axes expected')
    comps = [int_expr(e, set(dims + xyz)) for e in ret.value.elt.elts]
    out = ('/-- path.py Pathway.wrapped_sites, one site: (Python `%` with a positive modulus is Lean\'s `Int.emod`) -/\n'
           f'def wrappedSite ({" ".join(xyz)} {" ".join(dims)} : Int) : Int × Int × Int :=\n  ({", ".join(comps)})\n')
    b, _ = straight_line('path.py', 'Pathway.frac_sites', 'fracSite', ['w', 'dims'], opaque={'np.array(sites)': 'w', 'np.array(self.dims)': 'dims'},
                         skip={'not self.dims'}, doc='path.py Pathway.frac_sites, per axis: `w` = wrapped voxel coordinate')
    f = flag('fracSitesUseWrapped', resolved_text(find_function(tree, 'Pathway.frac_sites'), 'sites') == 'self.wrapped_sites()', 'frac_sites starts from `self.wrapped_sites()`')
    return out + '\n' + b + '\n' + f


def slice_c05b():
    tree = ast.parse((REPO_SRC / 'jumps.py').read_text())
    fn = find_function(tree, 'Jumps.rates')
    loop = next((n for n in fn.body if isinstance(n, ast.For) and ast.unparse(n.iter) == 'self.site_pairs'), None)
    if loop is None:
        raise Untranslatable('rates: `for site_pair in self.site_pairs` not found')
    last = loop.body[-1]
    if not (isinstance(last, ast.Assign) and ast.unparse(last.targets[0]) == 'dct[site_pair]' and isinstance(last.value, ast.Tuple) and len(last.value.elts) == 2):
        raise Untranslatable('rates: loop does not end with `dct[site_pair] = <mean>, <std>`')
    sl = Slice(['mean_jumps', 'std_jumps', 'n_floating', 'total_time', 'n_parts'],
               {'np.mean(n_jumps)': 'mean_jumps', 'np.std(n_jumps, ddof=1)': 'std_jumps', 'self.trajectory.total_time': 'total_time', 'self.n_floating': 'n_floating'})
    env, st = {}, {'raises': [], 'stores': {}, 'result_node': None}
    pre = [n for n in fn.body if isinstance(n, ast.Assign) and isinstance(n.targets[0], ast.Name)]
    sl.block(pre + loop.body[:-1], env, [], st)
    mean = sl.arith(last.value.elts[0], env)
    std = sl.arith(last.value.elts[1], env)
    n_jumps = assigned_text(loop, 'n_jumps')
    parts = assigned_text(fn, 'parts')
    out = ('/-- jumps.py Jumps.rates: rate of one site pair from the mean of its per-part jump counts -/\n'
           f'def rateMean ({" ".join(sl.params)} : Rat) : Rat :=\n  {mean}\n'
           '\n/-- … and its standard deviation from the sample standard deviation of the counts -/\n'
           f'def rateStd ({" ".join(sl.params)} : Rat) : Rat :=\n  {std}\n\n')
    out += flag('ratesCountPerPart', n_jumps == ['[part[site_pair] for part in parts]'] and parts == ['[part.counter() for part in self.split(n_parts)]'],
                'the counts are the label counters of `self.split(n_parts)`, one per part')
    # Jumps.split forwards the conversion settings to every part
    fs = find_function(tree, 'Jumps.split')
    ret = fs.body[-1]
    ok = False
    if isinstance(ret, ast.Return) and isinstance(ret.value, ast.ListComp) and isinstance(ret.value.elt, ast.Call) and ast.unparse(ret.value.elt.func) == 'Jumps':
        kws = {k.arg: ast.unparse(k.value) for k in ret.value.elt.keywords}
        ok = (kws == {'conversion_method': 'self.conversion_method', 'minimal_residence': 'self.minimal_residence'}
              and [ast.unparse(a) for a in ret.value.elt.args] == [ast.unparse(ret.value.generators[0].target)]
              and len(ret.value.generators) == 1 and not ret.value.generators[0].ifs
              and resolved_text(fs, ret.value.generators[0].iter) == 'self.transitions.split(n_parts)')
    out += '\n' + flag('splitForwardsSettings', ok, 'Jumps.split builds `Jumps(part, conversion_method=self.conversion_method, minimal_residence=self.minimal_residence)` for the parts of `self.transitions.split(n_parts)`')
    # provenance of the distances in jump_diffusivity
    fj = find_function(tree, 'Jumps.jump_diffusivity')
    out += '\n' + flag('jumpDistancesInSimulationCell',
                       resolved_text(fj, 'pdist') == 'self.trajectory.get_lattice().get_all_distances(self.sites.frac_coords, self.sites.frac_coords)',
                       'jump_diffusivity measures site distances with the TRAJECTORY\'s lattice (`get_all_distances` = minimum image)')
    return out


def slice_c02b():
    tree = ast.parse((REPO_SRC / 'transitions.py').read_text())
    fn = find_function(tree, '_compute_site_radius')
    return flag('siteSeparationsInSimulationCell',
                resolved_text(fn, 'pdist') == 'trajectory.get_lattice().get_all_distances(sites.frac_coords, sites.frac_coords)',
                '_compute_site_radius measures site separations with the TRAJECTORY\'s lattice (`get_all_distances` = minimum image)')


def slice_c12():
    tree = ast.parse((REPO_SRC / 'jumps.py').read_text())
    fn = find_function(tree, 'Jumps.collective')
    sl = Slice(['attempt_freq', 'time_step'], inputs={'attempt_freq', 'time_step'})
    env, st = {}, {'raises': [], 'stores': {}, 'result_node': None}
    sl.block(fn.body, env, [], st)
    ms = env.get('max_steps')
    if ms is None or ms is OPAQUE:
        raise Untranslatable('collective: max_steps is not an arithmetic value')
    ret = st['result_node']
    if not (isinstance(ret, ast.Call) and ast.unparse(ret.func) == 'Collective' and not ret.args):
        raise Untranslatable('collective: does not return Collective(<keywords>)')
    kws = {k.arg: ast.unparse(k.value) for k in ret.keywords}
    out = ('/-- jumps.py Jumps.collective: the correlation window in time steps -/\n'
           f'def maxSteps (attempt_freq time_step : Rat) : Int :=\n  {ms}\n\n')
    rk = {k.arg: resolved_text(fn, k.value) for k in ret.keywords}
    out += flag('collectiveUsesSimulationCell', rk.get('lattice') == 'self.trajectory.get_lattice()',
                'the Collective analysis is given the TRAJECTORY\'s lattice for site distances')
    out += '\n' + flag('collectiveForwardsArguments', kws.get('max_steps') == 'max_steps' and rk.get('max_dist') == 'max_dist' and rk.get('jumps') == 'self'
                       and rk.get('sites') == 'self.transitions.sites',
                       'window, cut-off, jumps and sites are passed on unchanged')
    inputs_ok = (assigned_text(fn, 'time_step') == ['trajectory.time_step'])
    out += '\n' + flag('windowFromAttemptFrequency', inputs_ok and any('attempt_frequency()' in ast.unparse(n.value) for n in ast.walk(fn)
                       if isinstance(n, ast.Assign) and isinstance(n.targets[0], ast.Tuple) and [getattr(e, 'id', None) for e in n.targets[0].elts][:1] == ['attempt_freq']),
                       '`attempt_freq` is the mean attempt frequency of the trajectory\'s metrics, `time_step` the trajectory\'s time step')
    return HEADER + out + '\nend G.Gen\n'


def slice_c19():
    tree = ast.parse((REPO_SRC / 'transitions.py').read_text())
    fn = find_function(tree, '_split_transitions_events')
    bins = next((n.value for n in fn.body if isinstance(n, ast.Assign) and ast.unparse(n.targets[0]) == 'bins'), None)
    if not (isinstance(bins, ast.Call) and ast.unparse(bins.func) == 'np.linspace' and len(bins.args) == 3
            and [(k.arg, ast.unparse(k.value)) for k in bins.keywords] == [('dtype', 'int')]):
        raise Untranslatable('bins is not `np.linspace(<start>, <stop>, <count>, dtype=int)`')
    sl = Slice(['n_states', 'n_parts'])
    start, stop, count = (sl.arith(a, {}) for a in bins.args)
    parts = next((n.value for n in fn.body if isinstance(n, ast.Assign) and ast.unparse(n.targets[0]) == 'parts'), None)
    if not (isinstance(parts, ast.ListComp) and len(parts.generators) == 1 and ast.unparse(parts.generators[0].iter) == 'pairwise(bins)'
            and ast.unparse(parts.generators[0].target) == '(start, stop)' and not parts.generators[0].ifs):
        raise Untranslatable('parts is not a comprehension over `pairwise(bins)`')
    elt = parts.elt
    if isinstance(elt, ast.Call) and isinstance(elt.func, ast.Attribute) and elt.func.attr == 'copy' and not elt.args:
        elt = elt.func.value
    if not (isinstance(elt, ast.Subscript) and ast.unparse(elt.value) == 'events' and isinstance(elt.slice, ast.BinOp) and isinstance(elt.slice.op, ast.BitAnd)):
        raise Untranslatable('part selection is not `events[<cond> & <cond>]`')
    sl2 = Slice(['t', 'start', 'stop'], {'events[split_key]': 't'})
    c1, c2 = sl2.arith(elt.slice.left, {}), sl2.arith(elt.slice.right, {})
    # re-basing
    loop = next((n for n in fn.body if isinstance(n, ast.For) and ast.unparse(n.iter) == 'zip(bins[:-1], parts)' and ast.unparse(n.target) == '(offset, part)'), None)
    if loop is None or len(loop.body) != 1 or not (isinstance(loop.body[0], ast.AugAssign) and ast.unparse(loop.body[0].target) == 'part[dependent_keys]'):
        raise Untranslatable('re-basing loop is not `for offset, part in zip(bins[:-1], parts): part[dependent_keys] <op>= …`')
    sl3 = Slice(['t', 'offset'], {'part[dependent_keys]': 't'})
    aug = loop.body[0]
    if type(aug.op) not in BIN:
        raise Untranslatable('re-basing operator')
    reb = f'(t {BIN[type(aug.op)]} {sl3.arith(aug.value, {})})'
    out = ('/-- transitions.py _split_transitions_events: `bins = np.linspace(binsStart, binsStop, binsCount, dtype=int)` -/\n'
           f'def binsStart (n_states n_parts : Rat) : Rat :=\n  {start}\n'
           f'def binsStop (n_states n_parts : Rat) : Rat :=\n  {stop}\n'
           f'def binsCount (n_states n_parts : Rat) : Rat :=\n  {count}\n'
           '\n/-- an event with time `t` belongs to the part with boundaries `start`, `stop` -/\n'
           f'def inPart (t start stop : Rat) : Bool :=\n  decide ({c1} ∧ {c2})\n'
           '\n/-- re-basing of the times of a part whose first boundary is `offset` -/\n'
           f'def rebase (t offset : Rat) : Rat :=\n  {reb}\n')
    # Trajectory.split
    t2 = ast.parse((REPO_SRC / 'trajectory.py').read_text())
    f2 = find_function(t2, 'Trajectory.split')
    iv = next((n.value for n in f2.body if isinstance(n, ast.Assign) and ast.unparse(n.targets[0]) == 'interval'), None)
    if not (isinstance(iv, ast.Call) and ast.unparse(iv.func) == 'np.linspace' and len(iv.args) == 3
            and [(k.arg, ast.unparse(k.value)) for k in iv.keywords] == [('dtype', 'int')]):
        raise Untranslatable('Trajectory.split: interval is not `np.linspace(<start>, <stop>, <count>, dtype=int)`')
    sl4 = Slice(['n_frames', 'n_parts'], {'len(self)': 'n_frames'})
    a, b, c = (sl4.arith(x, {}) for x in iv.args)
    sub = assigned_text(f2, 'subtrajectories')
    out += ('\n/-- trajectory.py Trajectory.split: `interval = np.linspace(splitStart, splitStop, splitCount, dtype=int)` -/\n'
            f'def splitStart (n_frames n_parts : Rat) : Rat :=\n  {a}\n'
            f'def splitStop (n_frames n_parts : Rat) : Rat :=\n  {b}\n'
            f'def splitCount (n_frames n_parts : Rat) : Rat :=\n  {c}\n\n')
    out += flag('splitPartsAreSlices', len(sub) >= 1 and sub[0] == '[self[start:stop] for start, stop in pairwise(interval)]',
                'every part is the slice `self[start:stop]` of consecutive interval boundaries (slicing is representation-independent, C15)')
    return HEADER + out + '\nend G.Gen\n'


def slice_c11():
    tree = ast.parse((REPO_SRC / 'rdf.py').read_text())
    fn = find_function(tree, 'radial_distribution_between_species')
    norm = next((n for n in fn.body if isinstance(n, ast.FunctionDef) and n.name == 'normalize'), None)
    if norm is None:
        raise Untranslatable('inner function normalize not found')
    pv = assigned_text(fn, 'particle_vol')
    sl = Slice(['radius', 'resolution', 'particle_vol', 'pi'], {'np.pi': 'pi'})
    env, st = {}, {'raises': [], 'stores': {}, 'result_node': None}
    sl.block(norm.body, env, [], st)
    res = sl.arith(st['result_node'], env)
    sl2 = Slice(['num_atoms', 'volume'], {'lattice.volume': 'volume'})
    if len(pv) != 1:
        raise Untranslatable('particle_vol assigned more than once')
    pvx = sl2.arith(next(n.value for n in fn.body if isinstance(n, ast.Assign) and ast.unparse(n.targets[0]) == 'particle_vol'), {})
    out = ('/-- rdf.py radial_distribution_between_species.normalize: number of second-species atoms an ideal gas of density\n'
           '`particle_vol` places in the shell [radius, radius + resolution) -/\n'
           f'def shellNorm (radius resolution particle_vol pi : Rat) : Rat :=\n  {res}\n'
           '\n/-- the density used: atoms of the second species per cell volume -/\n'
           f'def particleVol (num_atoms volume : Rat) : Rat :=\n  {pvx}\n\n')
    bins = assigned_text(fn, 'bins')
    out += flag('binsAreArange', bins == ['np.arange(0, max_dist + resolution, resolution)'],
                'shell boundaries are `np.arange(0, max_dist + resolution, resolution)`: every multiple of the bin width up to the cut-off is a boundary')
    hist = [ast.unparse(n.value) for n in ast.walk(fn) if isinstance(n, ast.Assign) and isinstance(n.targets[0], ast.Tuple) and ast.unparse(n.targets[0].elts[0]) == 'rdf']
    out += '\n' + flag('countsAreHistogram', hist == ['np.histogram(distances, bins=bins, density=False)'],
                       'raw pair counts are `np.histogram(distances, bins=bins, density=False)`')
    return HEADER + out + '\nend G.Gen\n'


def slice_c08b():
    tree = ast.parse((REPO_SRC / 'volume.py').read_text())
    fn = find_function(tree, 'trajectory_to_volume')
    outs, names = [], ['nx', 'ny', 'nz']
    exprs = []
    for k, nm in enumerate(names):
        val = next((n.value for n in fn.body if isinstance(n, ast.Assign) and ast.unparse(n.targets[0]) == nm), None)
        if val is None:
            raise Untranslatable(f'{nm} not assigned')
        sl = Slice(['length', 'resolution'], {f'lattice.lengths[{k}]': 'length'})
        exprs.append(sl.arith(val, {}))
    if len(set(exprs)) != 1:
        raise Untranslatable('the three axes compute their number of bin edges differently')
    out = ('/-- volume.py trajectory_to_volume: number of bin EDGES along an axis of length `length` (the grid has one voxel less) -/\n'
           f'def nEdges (length resolution : Rat) : Int :=\n  {exprs[0]}\n\n')
    bins = [assigned_text(fn, b) for b in ('xbins', 'ybins', 'zbins')]
    lim = {ast.unparse(n) for n in fn.body if isinstance(n, ast.Assign) and len(n.targets) > 1}
    out += flag('edgesAreUniformDropFirst', bins == [['np.linspace(x0, x1, nx)[1:]'], ['np.linspace(y0, y1, ny)[1:]'], ['np.linspace(z0, z1, nz)[1:]']]
                and lim == {'x0 = y0 = z0 = 0', 'x1 = y1 = z1 = 1'},
                'the bin edges along each axis are `np.linspace(0, 1, n)[1:]`: k/(n-1) for k = 1 … n-1')
    dig = assigned_text(fn, 'digitized_coords')
    want = ('np.vstack([np.digitize(coords[:, 0], bins=xbins), np.digitize(coords[:, 1], bins=ybins), np.digitize(coords[:, 2], bins=zbins)]).T')
    out += '\n' + flag('indicesAreDigitize', dig == [want], 'voxel indices are `np.digitize(coordinate, edges)` per axis (right-open bins), no dtype conversion')
    data = assigned_text(fn, 'data')
    cnt = [ast.unparse(n) for n in fn.body if isinstance(n, ast.Assign) and ast.unparse(n.targets[0]) in ('(indices, counts)', 'data[i, j, k]', '(i, j, k)')]
    out += '\n' + flag('countsAreUniqueRows', data == ['np.zeros((nx - 1, ny - 1, nz - 1), dtype=int)'] and cnt == [
        'indices, counts = np.unique(digitized_coords, return_counts=True, axis=0)', 'i, j, k = indices.T', 'data[i, j, k] = counts'],
        'the grid has (nx-1, ny-1, nz-1) voxels and receives the multiplicity of every distinct index triple')
    pos = assigned_text(fn, 'coords')
    out += '\n' + flag('samplesAreAllPositions', pos == ['trajectory.positions.reshape(-1, 3)'], 'every atom position of every frame is a sample')
    return out


def slice_c17():
    tree = ast.parse((REPO_SRC / 'shape.py').read_text())
    fn = next((n for n in ast.walk(tree) if isinstance(n, ast.FunctionDef) and n.name == 'find_equivalent_positions'), None)
    if fn is None:
        raise Untranslatable('find_equivalent_positions not found')
    loop = next((n for n in fn.body if isinstance(n, ast.For) and ast.unparse(n.iter) == 'spacegroup'), None)
    if loop is None:
        raise Untranslatable('`for op in spacegroup` not found')
    aug = next((n for n in loop.body if isinstance(n, ast.AugAssign) and ast.unparse(n.target) == 'close'), None)
    if aug is None or type(aug.op) not in BIN:
        raise Untranslatable('re-imaging statement `close <op>= …` not found')
    sl = Slice(['close', 'sym_coords'])
    re_ = f'(close {BIN[type(aug.op)]} {sl.arith(aug.value, {})})'
    selv = next((n.value for n in loop.body if isinstance(n, ast.Assign) and ast.unparse(n.targets[0]) == 'sel'), None)
    if selv is None:
        raise Untranslatable('`sel = …` not found')
    sl2 = Slice(['dists', 'radius'])
    sel = sl2.arith(selv, {})
    out = ('/-- shape.py find_equivalent_positions, per coordinate: move a selected position by whole cells next to the symmetry image of the site -/\n'
           f'def reimage (close sym_coords : Rat) : Rat :=\n  {re_}\n'
           '\n/-- … and which positions are selected (distance to the image of the site vs the radius) -/\n'
           f'def selected (dists radius : Rat) : Bool :=\n  decide {sel}\n\n')
    order = [ast.unparse(n)[:60] for n in loop.body]
    out += flag('stepsInOrder', [ast.unparse(n) for n in loop.body] == [
        'sym_coords = op.operate(site_coords)', 'dists = lattice.get_all_distances(sym_coords, positions)', 'sel = dists < radius',
        'close = positions[sel.flatten()]', 'close -= np.round(close - sym_coords)', 'inversed = op.inverse.operate_multi(close)', 'cluster.append(inversed)'],
        'per operation: image of the site, minimum-image distances to all positions, selection, re-imaging, INVERSE operation, collection')
    cen = assigned_text(fn, 'centered')
    out += '\n' + flag('centredOnSite', cen == ['np.vstack(cluster) - site_coords'], 'the collected points are centred on the site itself')
    return HEADER + out + '\nend G.Gen\n'


def slice_c18():
    d, _ = straight_line('orientations.py', 'Orientations._fractional_directions', 'fracDirection', ['sat', 'cent'],
                         opaque={}, inputs={'sat', 'cent'},
                         doc='orientations.py Orientations._fractional_directions, per coordinate: `sat`, `cent` wrapped fractional coordinates of satellite and centre')
    tree = ast.parse((REPO_SRC / 'orientations.py').read_text())
    fn = find_function(tree, 'Orientations._fractional_directions')
    f = flag('directionsFromWrappedPositions', assigned_text(fn, 'frac_coord_cent') == ['self._trajectory_cent.positions']
             and assigned_text(fn, 'frac_coord_sat') == ['self._trajectory_sat.positions']
             and assigned_text(fn, 'sat') == ['frac_coord_sat[:, combinations[:, 1], :]'] and assigned_text(fn, 'cent') == ['frac_coord_cent[:, combinations[:, 0], :]'],
             'satellite / centre coordinates are the wrapped positions of every frame, paired by the bond table')
    return HEADER + d + '\n' + f + '\nend G.Gen\n'


def slice_c06():
    tree = ast.parse((REPO_SRC / 'trajectory.py').read_text())
    fn = find_function(tree, 'Trajectory.mean_squared_displacement')
    at = lambda name: assigned_text(fn, name)  # noqa: E731
    out = flag('trackIsUnwrappedCartesian', at('r') == ['self.cumulative_displacements', 'lattice.get_cartesian_coords(r)'] and at('lattice') == ['self.get_lattice()']
               and at('pos') == ['np.transpose(r, (1, 0, 2))'] and at('n_times') == ['pos.shape[1]'],
               'the track of every atom is the running sum of its minimum-image displacements, converted with `lattice.get_cartesian_coords` (row vector x lattice matrix)')
    out += '\n' + flag('autocorrelationZeroPaddedToTwiceFrames',
                       at('fft_result') == ['np.fft.ifft(np.abs(np.fft.fft(pos, n=2 * n_times, axis=-2)) ** 2, axis=-2)', 'fft_result[:, :n_times, :].real'],
                       'S2 comes from |FFT|^2 of the track zero-padded to exactly 2 x frames (linear, not circular, autocorrelation), first `frames` lags, real part')
    out += '\n' + flag('windowCountsAreFramesMinusLag', at('S2') == ['np.sum(fft_result, axis=-1) / (n_times - np.arange(n_times)[None, :])']
                       and at('S1') == ['(double_sum_D - cumsum_D)[:, :-1] / (n_times - np.arange(n_times)[None, :])'],
                       'both terms are divided by the number of time origins, frames - lag')
    out += '\n' + flag('squaredLengthRecursion', at('D') == ['np.square(pos).sum(axis=-1)', 'np.append(D, np.zeros((pos.shape[0], 1)), axis=-1)']
                       and at('double_sum_D') == ['2 * np.sum(D, axis=-1)[:, None]']
                       and at('cumsum_D') == ['np.cumsum(np.insert(D[:, 0:-1], 0, 0, axis=-1) + np.flip(D, axis=-1), axis=-1)'],
                       'S1 is computed as 2 x sum(D) - cumsum(insert(D, 0, 0)[:-1] + flip(D)) with D the squared lengths padded by one zero (GModel.Traj.s1)')
    # the transform length: `np.fft.fft(pos, n=<expr in n_times>, axis=-2)`, inverse transform of the same length, first n_times lags kept
    fft_calls = [n for n in ast.walk(fn) if isinstance(n, ast.Call) and ast.unparse(n.func) == 'np.fft.fft']
    ifft_calls = [n for n in ast.walk(fn) if isinstance(n, ast.Call) and ast.unparse(n.func) == 'np.fft.ifft']
    if len(fft_calls) != 1 or len(ifft_calls) != 1:
        raise Untranslatable('mean_squared_displacement: expected exactly one np.fft.fft and one np.fft.ifft call')
    nkw = {k.arg: k.value for k in fft_calls[0].keywords}
    ikw = {k.arg: k.value for k in ifft_calls[0].keywords}
    if 'n' not in nkw or len(fft_calls[0].args) != 1:
        raise Untranslatable('np.fft.fft(pos, n=...) without an explicit transform length')
    if 'n' in ikw and ast.unparse(ikw['n']) != ast.unparse(nkw['n']):
        raise Untranslatable('inverse transform of a different length')
    if len(ifft_calls[0].args) != 1:
        raise Untranslatable('np.fft.ifft with positional length')

    def nat_expr(node):
        if isinstance(node, ast.Name) and node.id == 'n_times':
            return 'n_times'
        if isinstance(node, ast.Constant) and isinstance(node.value, int) and node.value >= 0:
            return str(node.value)
        if isinstance(node, ast.BinOp) and isinstance(node.op, (ast.Add, ast.Sub, ast.Mult)):
            op = {ast.Add: '+', ast.Sub: '-', ast.Mult: '*'}[type(node.op)]
            return f'({nat_expr(node.left)} {op} {nat_expr(node.right)})'
        raise Untranslatable('transform length: ' + ast.unparse(node))
    out += ('\n/-- trajectory.py mean_squared_displacement: length of the zero-padded transform, `np.fft.fft(pos, n=…)` -/\n'
            f'def msdFftLength (n_times : Nat) : Nat :=\n  {nat_expr(nkw["n"])}\n')
    sl = Slice(['S1', 'S2'], inputs={'S1', 'S2'})
    msd = next((n.value for n in fn.body if isinstance(n, ast.Assign) and ast.unparse(n.targets[0]) == 'msd'), None)
    if msd is None and isinstance(fn.body[-1], ast.Return):
        msd = fn.body[-1].value  # the combination written directly in the return statement
    if msd is None:
        raise Untranslatable('msd not assigned')
    out += ('\n/-- trajectory.py mean_squared_displacement: how the two terms are combined -/\n'
            f'def msdCombine (S1 S2 : Rat) : Rat :=\n  {sl.arith(msd, {})}\n')
    ret = fn.body[-1]
    out += '\n' + flag('returnsMsd', isinstance(ret, ast.Return) and (ast.unparse(ret.value) == 'msd' or ret.value is msd), 'the combined value is what is returned')
    # distances_from_base_position feeds the tracer diffusivity
    return HEADER + out + '\nend G.Gen\n'


def slice_c05c():
    tree = ast.parse((REPO_SRC / 'jumps.py').read_text())
    fn = find_function(tree, 'Jumps.to_graph')
    loop = next((n for n in fn.body if isinstance(n, ast.For) and ast.unparse(n.iter) == 'self._counter().items()'), None)
    if loop is None:
        raise Untranslatable('to_graph: `for (start, stop), n_jumps in self._counter().items()` not found')
    last = loop.body[-1]
    if not (isinstance(last, ast.If) and not last.orelse and len(last.body) == 1 and isinstance(last.body[0], ast.Expr)
            and isinstance(last.body[0].value, ast.Call) and ast.unparse(last.body[0].value.func) == 'G.add_edge'):
        raise Untranslatable('to_graph: loop does not end with `if <limits>: G.add_edge(...)`')
    params = ['n_jumps', 'occupancy', 'total_time', 'log_ratio', 'kBT', 'elementary_charge', 'min_e_act', 'max_e_act']
    sl = Slice(params, {'atom_percentage[start]': 'occupancy', 'self.trajectory.total_time': 'total_time', 'np.log(eff_rate / attempt_freq)': 'log_ratio'},
               inputs={'n_jumps', 'kBT', 'min_e_act', 'max_e_act'})
    env, st = {'n_jumps': 'n_jumps', 'kBT': 'kBT', 'min_e_act': 'min_e_act', 'max_e_act': 'max_e_act'}, {'raises': [], 'stores': {}, 'result_node': None}
    sl.block(loop.body[:-1], env, [], st)
    keep = sl.arith(last.test, env)
    kws = {k.arg: k.value for k in last.body[0].value.keywords}
    if set(kws) != {'e_act'}:
        raise Untranslatable(f'G.add_edge keywords {sorted(kws)}')
    stored = sl.arith(kws['e_act'], env)
    rate = env.get('eff_rate')
    if rate is None or rate is OPAQUE:
        raise Untranslatable('eff_rate is not arithmetic')
    sig = ' '.join(params)
    out = ('/-- jumps.py Jumps.to_graph: effective rate of a site pair (`occupancy` = mean number of atoms at the origin site) -/\n'
           f'def effRate ({sig} : Rat) : Rat :=\n  {rate}\n'
           '\n/-- … the activation energy stored on the edge (`log_ratio` = np.log(eff_rate / attempt_freq)) -/\n'
           f'def edgeEnergy ({sig} : Rat) : Rat :=\n  {stored}\n'
           '\n/-- … and whether the edge is kept for the limits `min_e_act`, `max_e_act` -/\n'
           f'def edgeKept ({sig} : Rat) : Bool :=\n  decide {keep}\n\n')
    lim = [ast.unparse(n) for n in fn.body if isinstance(n, ast.Assign) and ast.unparse(n.targets[0]) in ('min_e_act', 'max_e_act')]
    out += flag('limitsDefaultToUnbounded', lim == ["min_e_act = min_e_act if min_e_act else float('-inf')", "max_e_act = max_e_act if max_e_act else float('inf')"],
                'a limit that is not given (None) means no limit')
    out += '\n' + flag('graphInputsFromThisAnalysis', assigned_text(fn, 'atom_percentage') == ['[site.species.num_atoms for site in self.transitions.occupancy()]']
                       and assigned_text(fn, 'temperature') == ["self.trajectory.metadata['temperature']"] and assigned_text(fn, 'kBT') == ['Boltzmann * temperature']
                       and any(ast.unparse(n) == 'attempt_freq, _ = self.trajectory.metrics().attempt_frequency()' for n in fn.body),
                       'occupancies, temperature and attempt frequency are those of this Jumps object\'s own transitions / diffusing trajectory, computed on request')
    return out


def slice_c20():
    tree = ast.parse((REPO_SRC / 'caching.py').read_text())
    fn = find_function(tree, 'weak_lru_cache')
    defaults = {a.arg: ast.unparse(d) for a, d in zip(fn.args.args, fn.args.defaults)}
    wrapper = next((n for n in fn.body if isinstance(n, ast.FunctionDef) and n.name == 'wrapper'), None)
    if wrapper is None:
        raise Untranslatable('weak_lru_cache: inner function `wrapper` not found')
    inner_fns = {n.name: n for n in wrapper.body if isinstance(n, ast.FunctionDef)}
    if set(inner_fns) != {'_func', 'inner'}:
        raise Untranslatable(f'weak_lru_cache.wrapper defines {sorted(inner_fns)}')
    def body(f):
        return [ast.unparse(x) for x in f.body if not (isinstance(x, ast.Expr) and isinstance(x.value, ast.Constant) and isinstance(x.value.value, str))]
    cap = defaults.get('maxsize')
    if cap is None or not cap.isdigit():
        raise Untranslatable('default maxsize is not an integer literal')
    out = f'/-- caching.py weak_lru_cache: default number of entries kept -/\ndef cacheCapacity : Nat := {int(cap)}\n\n'
    out += flag('memoIsLruOnWeakReference', [ast.unparse(d) for d in inner_fns['_func'].decorator_list] == ['functools.lru_cache(maxsize, typed)']
                and body(inner_fns['inner']) == ['return _func(weakref.ref(self), *args, **kwargs)']
                and [ast.unparse(d) for d in inner_fns['inner'].decorator_list] == ['functools.wraps(func)']
                and [ast.unparse(x) for x in wrapper.body if isinstance(x, ast.Return)] == ['return inner'],
                'the memo is functools.lru_cache keyed on (weakref.ref(self), *args, **kwargs): the key compares equal only for the same LIVE object, not for an address')
    out += '\n' + flag('memoStoresOnlyResults', body(inner_fns['_func']) == ['return func(_self(), *args, **kwargs)'],
                       'the cached function calls the method on the dereferenced object and stores nothing but its result (no exception, traceback or object reference)')
    # which methods are cached
    cached = []
    for path in sorted(REPO_SRC.glob('*.py')):
        t = ast.parse(path.read_text())
        for cls in [n for n in t.body if isinstance(n, ast.ClassDef)]:
            for m in [n for n in cls.body if isinstance(n, ast.FunctionDef)]:
                if any(ast.unparse(d).startswith('weak_lru_cache') for d in m.decorator_list):
                    cached.append(f'{path.stem}.{cls.name}.{m.name}')
    out += ('\n/-- every method decorated with `weak_lru_cache` in the package -/\n'
            'def cachedMethods : List String := [' + ', '.join(f'"{c}"' for c in cached) + ']\n')
    return HEADER + out + '\nend G.Gen\n'


SLICES = {'FormulasC01': slice_c01, 'FormulasC02': slice_c02, 'FormulasC05': slice_c05, 'FormulasC06': slice_c06, 'FormulasC08': slice_c08,
          'FormulasC09': slice_c09, 'FormulasC10': slice_c10, 'FormulasC11': slice_c11, 'FormulasC12': slice_c12,
          'FormulasC14': slice_c14, 'FormulasC17': slice_c17, 'FormulasC18': slice_c18, 'FormulasC19': slice_c19, 'FormulasC20': slice_c20}


def render(name):
    """-> (ok, text, message)"""
    try:
        return True, SLICES[name](), 'ok'
    except Untranslatable as e:
        return False, stub(f'{name}: {e}'), f'{name}: {e}'
    except Exception as e:  # noqa: BLE001  (source no longer parses, unexpected shapes, …)
        return False, stub(f'{name}: {type(e).__name__}: {e}'), f'{name}: {type(e).__name__}: {e}'


if __name__ == '__main__':
    import sys
    for nm in (sys.argv[1:] or SLICES):
        ok, text, msg = render(nm)
        print('=' * 20, nm, ok, msg)
        print(text)
