"""C17 — shape analysis collects exactly the symmetry-equivalent points in the radius."""

from __future__ import annotations

import json
import warnings
from fractions import Fraction

import numpy as np
from pymatgen.core import Lattice, PeriodicSite
from pymatgen.symmetry.groups import SpaceGroup

from . import core, gem, translate
from .core import Outcome, PropertySpec, enc

from gemdat.shape import ShapeAnalyzer  # noqa: E402

PID = 'C17'
MODULES = ['GProofs.Geometry', 'GProofs.C17', 'GProofs.C17Gen']

# space group -> compatible lattices (rational matrices)
GROUPS = {
    'P1': ['tric', 'tric2', 'skew', 'mono'],
    'P-1': ['tric', 'tric2', 'mono', 'ortho'],
    'P2': ['mono', 'ortho'],
    'P2_1/c': ['mono', 'ortho'],
    'Pmmm': ['ortho', 'cubic'],
    'P4': ['tetra', 'cubic'],
    'P4/mmm': ['tetra', 'cubic'],
    'Pm-3m': ['cubic'],
    'Fm-3m': ['cubic'],
    # hexagonal axes: the fractional rotation matrices are NOT orthogonal (inverse != transpose)
    'P3': ['hex'], 'P-3m1': ['hex'], 'P6/mmm': ['hex'], 'P6_3/mmc': ['hex'],
}
LATS = dict(gem.LATTICES)
LATS['tetra'] = [[6, 0, 0], [0, 6, 0], [0, 0, 9]]
LATS['hex'] = [[6, 0, 0], [-3, 3 * 3 ** 0.5, 0], [0, 0, 8]]


_SG: dict = {}


def space_group(name):
    if name not in _SG:
        g = SpaceGroup(name)
        _ = g.symmetry_ops
        _SG[name] = g
    return _SG[name]


def enc_op(aff):
    aff = np.asarray(aff, float)
    rows = [aff[k, :3].tolist() for k in range(3)]
    t = aff[:3, 3].tolist()
    return ' '.join(enc(v) for r in rows for v in r) + ' ' + ' '.join(enc(v) for v in t)


def perp_widths(lat):
    L = Lattice(lat)
    return [L.volume / np.linalg.norm(np.cross(L.matrix[(i + 1) % 3], L.matrix[(i + 2) % 3])) for i in range(3)]


def gen_case(rng):
    grp = str(rng.choice(list(GROUPS)))
    lname = str(rng.choice(GROUPS[grp]))
    lat = np.array(LATS[lname], float)
    wmin = min(perp_widths(lat))
    radius = float(round(rng.uniform(0.15, 0.45) * wmin, 3))
    # site on a k/64 grid, often close to a face so that symmetry images fall outside [0,1)
    site = rng.integers(0, 64, size=3) / 64
    if rng.random() < 0.6:
        site[int(rng.integers(3))] = float(rng.choice([63 / 64, 62 / 64, 1 / 64, 0.0, 0.5]))
    ops = space_group(grp).symmetry_ops
    ops = sorted(ops, key=lambda o: o.affine_matrix.round(6).tolist())
    L = Lattice(lat)
    # positions: around images of symmetry-equivalent sites, plus random ones
    pos = []
    for _ in range(int(rng.integers(3, 12))):
        if rng.random() < 0.8:
            op = ops[int(rng.integers(len(ops)))]
            c = op.operate(site)
            v = rng.normal(size=3)
            v *= float(rng.choice([0.2, 0.6, 0.95, 1.05, 1.4])) * radius / np.linalg.norm(v)
            p = c + L.get_fractional_coords(v)
        else:
            p = rng.random(3)
        pos.append((np.round(np.mod(p, 1) * 4096) / 4096).tolist())
    sc = [1, 1, 1]
    if rng.random() < 0.3:
        sc = [int(rng.integers(1, 4)) for _ in range(3)]
    return {'group': grp, 'lattice_name': lname, 'lattice': lat.tolist(), 'site': site.tolist(), 'radius': radius,
            'positions': pos, 'supercell': sc}


def gen_near_special(rng):
    """a site a few 1e-5 (fractional) off the special position (1/3, 2/3, z) of a hexagonal group — CIF-style 0.33333 / 0.66667 —
    so that several symmetry images ALMOST coincide, and positions just inside the sphere of one image but just outside the sphere
    of its near-twin (the lens between the two spheres)"""
    grp = str(rng.choice(['P-3m1', 'P6/mmm', 'P6_3/mmc', 'P3']))
    lat = np.array(LATS['hex'], float)
    L = Lattice(lat)
    radius = float(round(rng.uniform(0.2, 0.4) * min(perp_widths(lat)), 3))
    d1, d2 = (float(rng.choice([-4e-5, -2e-5, 2e-5, 3e-5, 4e-5])) for _ in range(2))
    site = np.array([1 / 3 + d1, 2 / 3 + d2, float(rng.integers(1, 63)) / 64])
    site = np.round(site * 2 ** 44) / 2 ** 44
    ops = space_group(grp).symmetry_ops
    imgs = np.array([np.mod(o.operate(site), 1) for o in ops])
    pos = []
    for a in range(len(imgs)):
        for b in range(len(imgs)):
            if a == b:
                continue
            dfr = imgs[b] - imgs[a]
            dfr -= np.round(dfr)
            dc = L.get_cartesian_coords(dfr)
            n = float(np.linalg.norm(dc))
            if 2e-5 < n < 2e-3 and len(pos) < 10:
                # inside sphere a by n/4, outside sphere b by about 3n/4 (and outside a third image at 60 degrees by n/4)
                p = imgs[a] + L.get_fractional_coords(-(radius - 0.25 * n) * dc / n)
                pos.append((np.round(np.mod(p, 1) * 2 ** 44) / 2 ** 44).tolist())
    for _ in range(4):
        pos.append((np.round(rng.random(3) * 4096) / 4096).tolist())
    return {'group': grp, 'lattice_name': 'hex', 'lattice': lat.tolist(), 'site': site.tolist(), 'radius': radius, 'positions': pos,
            'supercell': [1, 1, 1], 'near_special_position': True}


def check_case(out: Outcome, case, tag):
    lat = np.array(case['lattice'], float)
    L = Lattice(lat)
    site_f = np.array(case['site'], float)
    radius = case['radius']
    pos = np.array(case['positions'], float)
    grp = space_group(case['group'])
    ops = list(grp.symmetry_ops)
    sc = case.get('supercell', [1, 1, 1])
    out.evaluations += 1
    site = PeriodicSite('Li', site_f, L, label='s')
    sa = ShapeAnalyzer(sites=[site], lattice=L, spacegroup=grp)
    with warnings.catch_warnings():
        warnings.simplefilter('ignore')
        if sc != [1, 1, 1]:
            # a supercell trajectory that folds onto `pos`: put each position into a random sub-cell
            rng = np.random.default_rng(len(pos))
            sub = rng.integers(0, np.array(sc), size=(len(pos), 3))
            big = (pos + sub) / np.array(sc)
            traj = gem.make_traj(big[None, :, :], np.array(sc)[:, None] * lat, ['Li'] * len(pos))
            if len(pos) % 2:
                _ = traj.displacements  # an earlier read-only query left the object in its displacement representation
            shapes = sa.analyze_trajectory(traj, supercell=tuple(sc), radius=radius)
            folded = np.mod(np.array(traj.positions).reshape(-1, 3), 1 / np.array(sc)) * np.array(sc)
            fm = core.drive([(str(k), f'fold {sc[k]} {len(pos)} ' + ' '.join(enc(v) for v in np.array(traj.positions).reshape(-1, 3)[:, k].tolist())) for k in range(3)])
            want_fold = np.array([[float(core.dec_rat(t)) for t in fm[str(k)].split()[1:]] for k in range(3)]).T
            # compare modulo 1: with scale 3 the float 1/3 puts a position on a sub-cell face at 0.999… or at 0
            if np.any(np.abs(((folded - want_fold + 0.5) % 1) - 0.5) > 1e-9):
                out.fail('correspondence', 'model-fold', case, expected=want_fold.tolist(), observed=folded.tolist())
            use_pos = folded
        else:
            shapes = sa.analyze_positions(pos, radius=radius)
            use_pos = pos
    coords = np.array(shapes[0].coords)
    # model
    ops_s = ' '.join([str(len(ops))] + [enc_op(o.affine_matrix) + ' ' + enc_op(o.inverse.affine_matrix) for o in ops])
    pts_s = gem.enc_v3s(use_pos)
    line = f'shape {gem.enc_m3(lat)} {enc(Fraction(radius) ** 2)} 0 ' + ' '.join(enc(v) for v in site_f.tolist()) + f' {ops_s} {pts_s}'
    r = core.drive1(line)
    parts = r[3:].split(' | ')
    if any(t == '-1' for t in parts[2].split()):
        out.count('skipped-uncertified')
        return
    mpts = np.array([float(core.dec_rat(t)) for t in parts[0].split()]).reshape(-1, 3)
    mq = np.array([float(core.dec_rat(t)) for t in parts[1].split()])
    msrc = np.array([float(core.dec_rat(t)) for t in parts[2].split()])
    npairs = int(parts[3])
    # margin: source distances within 1e-6 of the radius are not decided
    alld = np.concatenate([L.get_all_distances(o.operate(site_f), use_pos).reshape(-1) for o in ops])
    if np.any(np.abs(alld - radius) < 1e-6):
        out.count('skipped-margin')
        return
    # (b) number of points = number of (operation, position) pairs within the radius
    if len(coords) != npairs:
        out.fail('property', 'count-equals-pairs-in-radius', case, expected=npairs, observed=len(coords))
        return
    if npairs == 0:
        out.count('empty')
        return
    d = np.linalg.norm(coords, axis=1)
    # (a) every point within the radius of the centre
    if np.any(d >= radius + 1e-9):
        k = int(np.argmax(d))
        out.fail('property', 'points-within-radius', case, expected=f'< {radius}', observed=float(d[k]),
                 note='as-was-digitize-reimage' if _matches_aswas(case, coords, lat, line) else '')
        return
    # (c) distance to the centre = the source's distance to the equivalent site
    if not np.allclose(np.sort(d ** 2), np.sort(msrc), rtol=1e-9, atol=1e-12):
        out.fail('property', 'distance-equals-source-distance', case, expected=np.sort(msrc).tolist(), observed=np.sort(d ** 2).tolist())
    # correspondence: the points themselves (order of operations as in the space group)
    want_cart = mpts @ lat
    if coords.shape != want_cart.shape or not np.allclose(coords, want_cart, rtol=1e-9, atol=1e-9):
        out.fail('property', 'point-is-inverse-image-of-source', case, expected=want_cart.tolist(), observed=coords.tolist())
    if not np.allclose(mq, msrc, rtol=1e-12, atol=1e-15):
        out.fail('correspondence', 'model-isometry', case, expected=msrc.tolist(), observed=mq.tolist(),
                 note='in the model the centred point does not have the source distance (operation not an isometry of this lattice?)')
    if np.allclose(shapes[0].distances(), d) is False:
        out.fail('property', 'distances-method', case)
    outside = any(np.any((o.operate(site_f) < 0) | (o.operate(site_f) >= 1)) for o in ops)
    if outside and npairs >= 2:
        out.nontrivial.add(json.dumps(case, sort_keys=True))
    if sc != [1, 1, 1]:
        out.count('supercell-cases')
    if len(out.samples) < 2 and len(pos) <= 5 and npairs >= 2:
        out.sample({'tag': tag, **case, 'n_points': npairs})


def _matches_aswas(case, coords, lat, line):
    """does the implementation's output equal the original ±1-offset re-imaging?"""
    tk = line.split()
    k = 1 + 9 + 1  # op, lattice(9), rsq -> index of asWas flag
    tk[k] = '1'
    r = core.drive1(' '.join(tk))
    pts = np.array([float(core.dec_rat(t)) for t in r[3:].split(' | ')[0].split()]).reshape(-1, 3)
    return pts.shape == coords.shape and np.allclose(pts @ lat, coords, atol=1e-9)


def check_large(out: Outcome, rng):
    """many input positions (frames x atoms of a long trajectory): the count clause by brute force"""
    lat = np.diag([6.0, 7.0, 8.0])
    L = Lattice(lat)
    n = int(rng.choice([50001, 73123, 120011, 149999]))
    pos = rng.integers(0, 4096, size=(n, 3)) / 4096
    site_f = np.array([63 / 64, 0.25, 0.5])
    # the very last positions (and some in the middle) lie well inside the sphere: every part of the input must be looked at
    for k in (1, 2, 3, n // 2, n // 3):
        pos[-k] = np.mod(site_f + rng.integers(-40, 41, size=3) / 4096, 1)
    radius = 0.9
    grp = space_group('P-1')
    site = PeriodicSite('Li', site_f, L, label='s')
    sa = ShapeAnalyzer(sites=[site], lattice=L, spacegroup=grp)
    out.evaluations += 1
    with warnings.catch_warnings():
        warnings.simplefilter('ignore')
        coords = np.array(sa.analyze_positions(pos, radius=radius)[0].coords)
    want = 0
    for o in grp.symmetry_ops:
        d = pos - o.operate(site_f)
        d -= np.round(d)
        want += int((np.linalg.norm(d @ lat, axis=1) < radius).sum())
    case = {'large': True, 'n_positions': n, 'group': 'P-1', 'lattice': lat.tolist(), 'site': site_f.tolist(), 'radius': radius}
    if len(coords) != want:
        out.fail('property', 'count-equals-pairs-in-radius', case, expected=want, observed=len(coords), note='large input')
    elif len(coords) and np.linalg.norm(coords, axis=1).max() >= radius:
        out.fail('property', 'points-within-radius', case, observed=float(np.linalg.norm(coords, axis=1).max()))
    out.nontrivial.add(('large', n))


def corpus():
    d = core.CORPUS / PID
    return [json.loads(p.read_text()) for p in sorted(d.glob('*.json'))] if d.exists() else []


def run(tier: str, seed: int, scale: int) -> Outcome:
    out = Outcome()
    rng = np.random.default_rng(seed)
    for case in corpus():
        check_case(out, case, 'corpus')
    for _ in range((270 if tier == "quick" else 3600) * scale):
        check_case(out, gen_case(rng), 'random')
    for _ in range((20 if tier == 'quick' else 200) * scale):
        check_case(out, gen_near_special(rng), 'near-special-position')
    for _ in range(1 if tier == 'quick' else 5):
        check_large(out, rng)
    return out


def replay(case):
    out = Outcome()
    if case.get('large'):
        return True, 'large-input cases: re-run ./check C17 quick with the recorded seed'
    check_case(out, case, 'replay')
    fails = [f for f in out.failures if f.kind == 'property']
    text = '\n'.join(f'{f.clause}: expected {str(f.expected)[:300]} observed {str(f.observed)[:300]} {f.note}' for f in fails) or 'no failure'
    return (not fails), text


SPEC = PropertySpec(
    pid=PID,
    modules=MODULES,
    run=run,
    replay=replay,
    gen=translate.gen_for('FormulasC17'),
    rule=('random cases over the space groups P1, P-1, P2, P2_1/c, Pmmm, P4, P4/mmm, Pm-3m, Fm-3m (operations from pymatgen) with a '
          'compatible rational lattice (triclinic / monoclinic / orthorhombic / tetragonal / cubic), a site on a k/64 grid (60% with a '
          'coordinate at 63/64, 62/64, 1/64, 0 or 1/2 so that symmetry images fall outside [0,1)), 3-11 positions placed at 0.2-1.4 radii '
          'from a random symmetry image (k/4096 grid) or anywhere, radius 0.15-0.45 of the smallest perpendicular width; 30% through '
          'analyze_trajectory on a (1..3)^3 supercell trajectory. On the implementation: number of points = number of (operation, '
          'position) pairs within the radius (certified minimum image), every point within the radius, squared distances = the '
          'sources\' squared distances, points = Lean model (1e-9). Non-trivial: a symmetry image outside [0,1)^3 and >= 2 points.'),
    trusted=['pymatgen SpaceGroup operation lists and SymmOp.inverse; Lattice.get_all_distances',
             'float matrix products (Cartesian conversion) compared to 1e-9'],
    assumptions=['radius below half the smallest perpendicular width; a source distance within 1e-6 of the radius is not decided'],
)
