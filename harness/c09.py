"""C09 — free energy is -kT ln(probability) and stays finite."""

from __future__ import annotations

import json
import math
import struct
import warnings
from fractions import Fraction

import numpy as np
from pymatgen.core import Lattice
from scipy.constants import physical_constants

from . import core, translate
from .core import Outcome, PropertySpec, enc

from gemdat.path import free_energy_graph  # noqa: E402
from gemdat.volume import Volume  # noqa: E402

PID = 'C09'
MODULES = ['GProofs.C09', 'GProofs.C09Gen']
KB = physical_constants['Boltzmann constant in eV/K'][0]
BIG = 1.7976931348623157e308
TEMPS = [1.0, 300.0, 1000.5, 300.0, 650.0, 2.5e4, 1.0e5]  # also k_B T above 1 eV


def gen_case(rng):
    shape = [int(rng.integers(1, 7)) for _ in range(3)]
    mode = rng.integers(5)
    if mode == 4:
        # a long history: one voxel holds almost all of 1e9..1e12 samples, a few voxels were visited a handful of times
        d = rng.integers(0, 12, size=shape) * (rng.random(shape) < 0.5)
        d[tuple(rng.integers(0, s) for s in shape)] = int(rng.integers(10**9, 10**12))
    elif mode == 0:
        d = rng.integers(0, 3, size=shape)
    elif mode == 1:
        d = rng.integers(0, 1000, size=shape) * (rng.random(shape) < 0.4)
    elif mode == 2:
        d = np.zeros(shape, int)
        d[tuple(rng.integers(0, s) for s in shape)] = int(rng.integers(1, 10**6))  # a single visited voxel: p = 1
    else:
        d = rng.integers(1, 10**6, size=shape)
    d = d.astype(int)
    if d.sum() == 0:
        d[tuple(0 for _ in shape)] = 1
    return {'shape': shape, 'density': d.reshape(-1).tolist(), 'T': float(rng.choice(TEMPS)),
            'thr': float(rng.choice([1e20, 1e7, 0.05, 0.5]))}


def bits_to_float(b: int) -> float:
    return struct.unpack('<d', struct.pack('<Q', b))[0]


def check_case(out: Outcome, case, tag):
    shape = case['shape']
    d = np.array(case['density'], dtype=int).reshape(shape)
    T = case['T']
    thr = case['thr']
    out.evaluations += 1
    vol = Volume(data=d, lattice=Lattice(np.eye(3) * 5.0))
    with warnings.catch_warnings():
        warnings.simplefilter('ignore')
        fe = vol.get_free_energy(temperature=T)
    F = np.array(fe.data, dtype=float)
    if F.shape != d.shape:
        out.fail('property', 'shape', case, expected=list(d.shape), observed=list(F.shape))
        return
    if not np.all(np.isfinite(F)):
        out.fail('property', 'finite', case, observed='NaN or infinity in the free-energy grid')
        return
    vis = d > 0
    S = int(d.sum())
    kT = KB * T
    # exp(-F/kT) recovers p on visited voxels and sums to one
    p = np.exp(-F[vis] / kT)
    want_p = d[vis] / S
    if not np.allclose(p, want_p, rtol=1e-10, atol=0):
        out.fail('property', 'exp-recovers-probability', case, expected=want_p.tolist()[:6], observed=p.tolist()[:6])
    if abs(p.sum() - 1) > 1e-10:
        out.fail('property', 'probabilities-sum-to-one', case, expected=1, observed=float(p.sum()))
    # value: -kT ln p (independent high-precision evaluation through the ratio of integers)
    def ln_ratio(x):
        # ln(x / S) without cancellation: log1p of the exact complement when p > 1/2, difference of logs otherwise
        q = Fraction(int(x), S)
        return math.log1p(-float(1 - q)) if 2 * q > 1 else float(np.log(q.numerator) - np.log(q.denominator))
    want_F = np.array([-kT * ln_ratio(x) for x in d[vis]])
    # p itself is a rounded quotient (relative 1.1e-16), which moves ln p by that much in ABSOLUTE terms
    if not np.allclose(F[vis], want_F, rtol=1e-9, atol=1e-18 + 4e-16 * kT):
        out.fail('property', 'free-energy-value', case, expected=want_F.tolist()[:6], observed=F[vis].tolist()[:6])
    # a denser voxel never has a higher free energy
    order = np.argsort(d[vis], kind='stable')
    fs = F[vis][order]
    ds = d[vis][order]
    for a in range(len(fs) - 1):
        if ds[a] < ds[a + 1] and fs[a] < fs[a + 1]:
            out.fail('property', 'denser-not-higher', case, expected='F decreasing in density', observed=[int(ds[a]), float(fs[a]), int(ds[a + 1]), float(fs[a + 1])])
            break
        if ds[a] == ds[a + 1] and fs[a] != fs[a + 1]:
            out.fail('property', 'equal-density-equal-energy', case, observed=[float(fs[a]), float(fs[a + 1])])
            break
    if np.any(F[vis] < 0):
        out.fail('property', 'nonnegative', case, observed=float(F[vis].min()))
    # unvisited voxels: finite, prohibitively large
    # (finite was checked above; 'prohibitive' = at least the default graph threshold 1e20 and above every visited voxel)
    if np.any(~vis) and not (np.all(F[~vis] >= 1e20) and np.all(F[~vis] > F[vis].max())):
        out.fail('property', 'unvisited-large-finite', case, expected='>= 1e20 and above every visited voxel', observed=F[~vis].tolist()[:4])
    # graph nodes: visited voxels below the threshold, unvisited ones excluded
    G = free_energy_graph(fe, max_energy_threshold=thr, diagonal=False)
    nodes = set(G.nodes)
    want_nodes = {tuple(ix) for ix in np.argwhere(vis & (F >= 0) & (F < thr)).tolist()}
    if nodes != want_nodes:
        out.fail('property', 'graph-nodes', case, expected=sorted(want_nodes)[:8], observed=sorted(nodes)[:8])
    if any(not vis[n] for n in nodes):
        out.fail('property', 'unvisited-excluded-from-graph', case)
    # Lean binary64 twin
    line = f'fe {enc(T)} {enc(thr)} {d.size} ' + ' '.join(str(int(x)) for x in d.reshape(-1))
    r = core.drive1(line).split()
    bar = r.index('|')
    mF = np.array([bits_to_float(int(b)) for b in r[1:bar]]).reshape(shape)
    mnodes = {tuple(ix) for ix in np.argwhere(np.array([c == '1' for c in r[bar + 1:]]).reshape(shape)).tolist()}
    if not np.allclose(F, mF, rtol=1e-12, atol=0):
        out.fail('correspondence', 'model-free-energy', case, expected=mF.reshape(-1).tolist()[:6], observed=F.reshape(-1).tolist()[:6])
    if mnodes != nodes:
        edge = {n for n in mnodes ^ nodes if abs(F[n] - thr) < 1e-9 * thr}
        if mnodes ^ nodes != edge:
            out.fail('correspondence', 'model-nodes', case, expected=sorted(mnodes)[:8], observed=sorted(nodes)[:8])
    # the same Volume object after its density changed (in-place masking / scaling / re-assignment):
    # the free energy must be that of the CURRENT density
    if d.size >= 2:
        v2 = Volume(data=d.copy(), lattice=Lattice(np.eye(3) * 5.0))
        with warnings.catch_warnings():
            warnings.simplefilter('ignore')
            _ = v2.get_free_energy(temperature=T)
            _ = v2.probability()
            mode = int(d.sum()) % 3
            if mode == 0:
                v2.data[tuple(np.argwhere(d > 0)[0])] += 7
            elif mode == 1:
                v2.data *= 3
            else:
                v2.data = np.roll(d, 1) + 1
            cur = np.array(v2.data)
            F2 = np.array(v2.get_free_energy(temperature=T).data, dtype=float)
            Fref = np.array(Volume(data=cur.copy(), lattice=Lattice(np.eye(3) * 5.0)).get_free_energy(temperature=T).data, dtype=float)
        if not np.allclose(F2, Fref, rtol=1e-12, atol=0):
            out.fail('property', 'free-energy-of-current-density', {**case, 'edit': ['increment', 'scale', 'reassign'][mode]},
                     expected=Fref.reshape(-1).tolist()[:6], observed=F2.reshape(-1).tolist()[:6],
                     note='a Volume queried before its density was edited returns a free energy that is not -kT ln(p) of its current density')
    # densities of other dtypes (occupancies stored as float32 / float64) and the graph built with its DEFAULT threshold, through
    # every entry point: never-visited voxels must stay out of the graph, visited ones below the default threshold are nodes
    for dt in (np.float32, np.float64):
        with warnings.catch_warnings():
            warnings.simplefilter('ignore')
            fe_t = Volume(data=d.astype(dt), lattice=Lattice(np.eye(3) * 5.0)).get_free_energy(temperature=T)
        Ft = np.array(fe_t.data, dtype=float)
        if not np.all(np.isfinite(Ft)):
            out.fail('property', 'finite', {**case, 'dtype': dt.__name__}, observed='NaN or infinity in the free-energy grid')
            continue
        want_default = {tuple(ix) for ix in np.argwhere(vis & (Ft >= 0) & (Ft < 1e20)).tolist()}
        for how, G_ in (('free_energy_graph(volume)', free_energy_graph(fe_t, diagonal=False)),
                        ('free_energy_graph(array)', free_energy_graph(np.array(fe_t.data), diagonal=False)),
                        ('volume.free_energy_graph()', fe_t.free_energy_graph(diagonal=False) if hasattr(fe_t, 'free_energy_graph') else None)):
            if G_ is None:
                continue
            got_nodes = set(G_.nodes)
            if any(not vis[n_] for n_ in got_nodes):
                out.fail('property', 'unvisited-excluded-from-graph', {**case, 'dtype': dt.__name__, 'built_by': how},
                         observed=sorted(n_ for n_ in got_nodes if not vis[n_])[:4], note='default energy threshold')
                break
            if got_nodes != want_default:
                out.fail('property', 'graph-nodes', {**case, 'dtype': dt.__name__, 'built_by': how}, expected=sorted(want_default)[:8], observed=sorted(got_nodes)[:8],
                         note='default energy threshold')
                break
    if vis.sum() >= 2 and (~vis).any() and len(set(d[vis].tolist())) >= 2:
        out.nontrivial.add(json.dumps(case, sort_keys=True))
    if len(out.samples) < 2 and d.size <= 8 and (~vis).any() and vis.sum() >= 2:
        out.sample({'tag': tag, **case, 'free_energy': F.reshape(-1).tolist()})


def corpus():
    d = core.CORPUS / PID
    return [json.loads(p.read_text()) for p in sorted(d.glob('*.json'))] if d.exists() else []


def run(tier: str, seed: int, scale: int) -> Outcome:
    out = Outcome()
    rng = np.random.default_rng(seed)
    for case in corpus():
        check_case(out, case, 'corpus')
    for _ in range((300 if tier == 'quick' else 3000) * scale):
        check_case(out, gen_case(rng), 'random')
    return out


def replay(case):
    out = Outcome()
    check_case(out, case, 'replay')
    fails = [f for f in out.failures if f.kind == 'property']
    text = '\n'.join(f'{f.clause}: expected {str(f.expected)[:200]} observed {str(f.observed)[:200]} {f.note}' for f in fails) or 'no failure'
    return (not fails), text


SPEC = PropertySpec(
    pid=PID,
    modules=MODULES,
    run=run,
    replay=replay,
    gen=translate.gen_for('FormulasC09'),
    rule=('random non-negative integer density grids up to 6x6x6 (sparse 0-2 counts, 60% empty with counts < 1000, a single visited '
          'voxel (p = 1), all visited up to 1e6, one voxel with 1e9-1e12 samples next to voxels visited < 12 times) x T in {1, 300, 650, 1000.5, 2.5e4, 1e5} x threshold in {1e20, 1e7, 0.5, 0.05}. On the implementation: '
          'all entries finite; exp(-F/kT) = density/total on visited voxels (1e-10) and sums to 1; F = -kT ln p against an '
          'independent evaluation (1e-9); denser voxel never higher, equal density equal energy, F >= 0; unvisited voxels finite, >= 1e20 '
          '(the default graph threshold) and above every visited voxel; free_energy_graph nodes = visited voxels with 0 <= F < threshold, unvisited excluded; binary64 Lean twin '
          '(1e-12). Non-trivial: >= 2 visited voxels with different density and >= 1 unvisited voxel.'),
    trusted=['np.log / Float.log (libm) are opaque: values are tolerance-compared; the theorems are about Real.log',
             'np.nan_to_num maps +inf to the largest finite double'],
    assumptions=['density is a non-negative integer array with at least one non-zero voxel; temperature > 0'],
)
