"""Regenerate /verif/MANIFEST.json from the property table below.

  /venv/bin/python -m harness.manifest
"""

from __future__ import annotations

import json
from pathlib import Path

VERIF = Path(__file__).resolve().parents[1]

TECH = ('Lean 4 theorems about a hand-written executable model + differential correspondence (model driver vs real code) + parts of the '
        'source translated to Lean on every run (lean/GGen) with theorems about the generated definitions')

# per property: what is regenerated from /repo on every run and which obligations are stated about it (DESIGN.md 12.8)
SLICES = {
    'C01': 'Regenerated every run: Trajectory.to_positions per coordinate (GGen/FormulasC01); C01Gen: = x mod 1, in [0,1), congruent.',
    'C02': 'Regenerated every run: the whole decision of _compute_site_radius + provenance of the separations (GGen/FormulasC02); C02Gen: 2r <= separation for every returned radius, strictly disjoint when reduced, error branch iff separation < 0.51 and overlapping.',
    'C05': 'Regenerated every run: jump_diffusivity, rates, Jumps.split forwarding, to_graph edge energy and limits (GGen/FormulasC05); C05Gen, C05Lab (label counter = sums of matrix entries, totals, rate x time = counts).',
    'C06': 'Regenerated every run: structure of mean_squared_displacement (window counts, S1 recursion) as flags, the LENGTH of the zero-padded transform and the combination S1 - 2 S2 (GGen/FormulasC06), tracer_diffusivity (FormulasC14); C06Gen: the translated length leaves room for every kept lag, combination of the model terms = definition.',
    'C08': 'Regenerated every run: voxel_to_frac_coords, frac_coords_to_voxel, voxel_size, number of bin edges and the binning pipeline of trajectory_to_volume (GGen/FormulasC08); C08Gen: round trip, voxels per axis = floor(L/res), edge bounds.',
    'C09': 'Regenerated every run: get_free_energy formula and the position of nan_to_num (GGen/FormulasC09); C09Gen: antitone, non-negative, nan_to_num outermost.',
    'C10': 'Regenerated every run: move tables (GGen/Moves), node test, edge weights, peak scan, wrapped/fractional sites (GGen/FormulasC10); C10Gen, C10Peak: the scan as written returns the cheapest path over all peaks; wrapped sites inside the grid along their own axis.',
    'C11': 'Regenerated every run: shell normalisation and density of the species-pair RDF + histogram/bin flags (GGen/FormulasC11); C11Gen: = density x shell volume, positive, additive over consecutive shells.',
    'C12': 'Also regenerated every run: the window ceil(1/(nu dt)) and what Jumps.collective hands to Collective (GGen/FormulasC12); C12Win: smallest number of steps covering one attempt period; simulation-cell flag.',
    'C13': 'C13Sel: naming the floating species = naming all others as fixed (whole-symbol selection, GModel.Labels, driver op selmask used by the check); C13Rigid: rigid-drift invariance.',
    'C14': 'Regenerated every run: particle_density, mol_per_liter, tracer_diffusivity, tracer_conductivity, haven_ratio, forwarding of dimensions (GGen/FormulasC14); C14Gen: formulas and scaling laws about the generated definitions.',
    'C17': 'Regenerated every run: re-imaging and selection of find_equivalent_positions + order of the per-operation steps (GGen/FormulasC17); C17Gen: = model re-imaging, within half a cell of the image, congruent.',
    'C18': 'Regenerated every run: the +-1 wrap of _fractional_directions (GGen/FormulasC18); C18Gen: = model wrapHalf, in [-1/2, 1/2], shifted by -1, 0 or +1.',
    'C20': 'Regenerated every run: the shape of weak_lru_cache (lru_cache keyed on weakref.ref(self), stores results only), its capacity and the list of cached methods (GGen/FormulasC20); C20Gen: every cached method is audited or the recorded known finding D14.',
    'C19': 'Regenerated every run: bins, part selection and re-basing of _split_transitions_events, interval of Trajectory.split (GGen/FormulasC19); C19Gen: half-open parts = model selection, consecutive parts disjoint and covering, re-based times in range.',
}

# pid -> (claim text, note, design section)
CHECKS: dict[str, tuple[str, str, str]] = {
    'C03': (
        'Theorems (GProofs/C03.lean, no bound on frames): the event table the code builds (change frames of both histories, '
        'np.union1d, fancy-index rows) equals the lock-step specification; a row exists iff the site or inner site changes at '
        'that frame and carries (t, before, after); row times strictly increase; replaying the rows rebuilds both histories; '
        'ffill/bfill as implemented = previous/next site. Tie: exhaustive bounded enumeration + random + public API, exact.',
        'trusted: numpy slicing/nonzero/union1d/fancy-index semantics as modelled, pandas table construction; '
        'defect D4 (IndexError / skipped atoms) repaired by fix commit f616709, the np.roll formulation kept as history theorems',
        '4/C03',
    ),
    'C04': (
        'Theorems (GProofs/C04.lean): the fromevent/candidate state machine, transcribed block by block, on the events of ANY '
        'history in default mode equals "consecutive distinct visited sites" for every minimal residence (default_eq_spec, '
        'jumpsOfHistory_default through the C03 table theorem); for ARBITRARY event lists (inner-site mode included) a larger '
        'minimal residence yields a sub-multiset of jumps (minres_monotone). The loop body is REGENERATED from jumps.py on every run (GGen/JumpStep, statement by statement) and proved to '
        'refine the hand-written machine (C04Gen.jumpStep_refines, runGen_refines), so the theorems are about what the code says now (the translator also reads read-only local names and and/or conditions). Tie: exhaustive histories x residences, exact incl. order.',
        'second clause proved as strict_subset_default (GProofs/C04Strict.lean): for inner histories with inner_t in {-1, site_t} every reported '
        'jump is a default jump (origin, destination, start time) and matches the recorded states; trusted: pandas groupby/iterrows order',
        '4/C04',
    ),
    'C05': (
        'Theorems (GProofs/C05.lean): with indices inside [0,n) the fancy-index assignment of unique-pair counts gives entry (i,j) = '
        '#rows (i,j) (matrixAsIs_get), n x n shape, sum = #rows, empty diagonal when origin != destination, '
        'sum_ij w_ij M_ij = sum over rows of w (jump diffusivity), per-site counts + no-site count = frames x atoms; D5 fold/overwrite '
        'witnesses; C05Occ: atom_locations / occupancy_by_site_type per label add up to the site occupancies, fractions at the site types + at no site = 1. '
        'Tie: real Transitions/Jumps objects on pool lattices, matrices exact, diffusivity vs exact certified minimum-image sum (1e-9), both per-label dictionaries vs GModel.OccLabels.',
        'known finding D5 (Transitions.matrix folds "no site" into the last site; upstream test pins the folded values) reported as '
        'KNOWN-FINDING, classified by agreement with the as-is model; rates/graph/counter checked as aggregations on the implementation; '
        'trusted: np.unique(axis=0) order, last-write-wins fancy assignment, pymatgen get_all_distances (cross-checked in C12)',
        '4/C05',
    ),
    'C12': (
        'Theorems (GProofs/C12.lean): the pair scan reports (a,b) iff a precedes b in the sorted table and the pair satisfies the three '
        'conditions (scan_iff), the predicate is symmetric, no pair twice or in both orders, sorting only permutes rows, '
        'solo + collective = total, the second guard is dead under the stop-time order; break_counterexample documents D9. '
        'Tie: random jump tables incl. long overlapping transits on triclinic cells, exact incl. order; distances from the certified minimum image. '
        'The guard chain of the pair loop is REGENERATED from collective.py on every run (GGen/PairGuard) and proved to be what the model executes (C12Gen.inner_cons_gen, no guard may break). '
        'C12Exit: an early exit bounded by the longest transit (stop_j - stop_i > window + L, rows ordered by stop time) changes nothing (innerExit_eq_inner); with >= a pair is lost.',
        'defect D9 (early break) repaired by fix commit a711a25; float comparison dist < max_dist kept 1e-6 away from every site distance; '
        'trusted: stable two-key pandas sort, pymatgen minimum-image distances (cross-checked per case)',
        '4/C12',
    ),
    'C19': (
        'Theorems (GProofs/C19.lean): array_split sizes sum to n and chunks concatenate to the original; for ANY non-decreasing bin '
        'vector every event in [first,last) lands in exactly one part with 0 <= re-based time < bin width; trajectory parts contiguous/'
        'ordered/equal-length; restarting the jump machine on a later chunk never yields more jumps than the uncut run for every '
        'residence (jumps_split_subadditive), time-shift invariance of the machine. Tie: Transitions.split/Jumps.split/Trajectory.split on real objects.',
        'numpy linspace(dtype=int) boundary vectors are taken from numpy and only their monotonicity/end points (the theorems\' hypotheses) are checked; '
        'refusals (too few events, empty trajectory part, part without jumps) are not violations',
        '4/C19',
    ),
}

CHECKS.update({
    'C01': (
        'Theorems (GProofs/C01.lean, over Q, no bound on frames/atoms): positions in [0,1) in every state and = input mod 1; displacements '
        'are minimum-image steps (|d| <= 1/2, congruent to the consecutive difference); first frame + running sum reproduces every frame '
        'mod 1 (running_sum_reproduces); whole-lattice shifts of any coordinate in any frame change neither displacements nor cumulative '
        'displacements, distances, positions (shift_invariance, NoTie); abstract-rounding theorem for the cell face + kernel-checked Float '
        'witness. Tie: exact comparison of every array on dyadic inputs, pool lattices incl. re-oriented triclinic; metamorphic shifted runs; face stream.',
        'IEEE rounding is not quantified over: face-adjacent floats are covered by wrap_fl_range (any monotone rounding), a kernel Float witness and the '
        'adversarial face stream only; NoTie (no exact half-cell step) is a domain precondition with a counterexample theorem; '
        'defect D1 (np.mod returns 1.0) repaired by fix commit f345c3b; trusted: pymatgen to_displacements/to_positions as modelled',
        '4/C01',
    ),
    'C06': (
        'Theorems (GProofs/C06.lean): the code\'s S1 (insert/flip/cumsum recursion) - 2*S2 equals the definition (average over time origins of '
        '|r(k+m)-r(k)|^2) for every track and lag (msdAlgo_eq_def), zero at lag 0, v^T(MM^T)v = |vM|^2 for every cell. Tie: MSD, distances^2, '
        'tracer diffusivity (d=1,2,3, one metrics object asked for all) vs exact rational values on multi-crossing walks in triclinic cells, rel 1e-9. FFT step (GProofs/C06Fft.lean): '
        'ifft(|fft(x, n=pad)|^2) read as the cyclic autocorrelation of the padded signal equals the linear sums whenever n + k <= pad (cyclic_eq_linear; 2n-1 is the shortest such '
        'length, 2n-2 fails), hence the code with ITS transform length computes the definition (msdCode_eq_def); the length is translated from the source on every run '
        '(C06Gen.msdFftLength_ok, msd_source_is_definition).',
        'trusted: numpy fft/ifft implement the DFT (convolution theorem), observed on every run against the exact cyclic sums on integer signals for 7 pad lengths each; sqrt and float matrix products by tolerance',
        '4/C06',
    ),
    'C08': (
        'Theorems (GProofs/C08.lean): np.digitize against the linspace edges = floor(x*n) on [0,1) (digitize_eq_floor), the index lies in the '
        'grid, the voxel counts sum to the number of samples for every sample list and grid (counts_sum) and entry (i,j,k) is the number of '
        'samples with that floor index (counts_get), n = floor(L/res) gives res <= L/n < 2 res, voxel -> centre -> voxel is the identity for '
        'every grid size (roundtrip); the volume of a sample list that continues another is the voxel-wise sum (counts_append_get), sample order is irrelevant (counts_perm_get). Tie: counts exact vs model and vs exact floor on dyadic and non-dyadic coordinate grids, pool lattices x 6 resolutions; '
        'volume(first part) + volume(second part) of one trajectory object = volume of the whole; float round trip for every voxel of every grid size up to 2000 (quick) / 20000 (thorough).',
        'IEEE: a coordinate within 2^-50 of a non-representable boundary k/n is only checked for conservation; cases with L/res within 1e-9 of an integer are skipped; '
        'the float round trip is enumerated for every index up to the bound AND proved for any rounding operator with relative error <= u (C08Fl.roundtrip_fl: every index below 2^50 for binary64)',
        '4/C08',
    ),
    'C09': (
        'Theorems over the reals (GProofs/C09.lean, Real.log): exp(-F/kT) = d/S, these sum to one over the visited voxels of any finite grid, '
        'denser never higher (F_antitone), F >= 0, an unvisited voxel (largest double) is never a graph node for any threshold <= BIG incl. 1e20 and 1e7, '
        'a visited voxel is a node iff F < threshold. Tie: value (1e-9 vs independent evaluation, 1e-12 vs the Lean binary64 twin, bit-identical in practice), '
        'finiteness, rank order and node sets exactly, on random integer density grids x 3 temperatures x 4 thresholds.',
        'np.log / Float.log are opaque to proof: the theorems are about Real.log and the numeric value is tolerance-compared (partial w.r.t. IEEE)',
        '4/C09',
    ),
    'C10': (
        'Theorems (GProofs/C10.lean): generated obligations on the move tables regenerated from path.py on every run (exactly the 6 face / all 26 '
        'neighbours, closed under negation); abstract certificate theorems (a feasible potential is a lower bound of the cost of every walk, additive and '
        'bottleneck); feasible_lower_bound: the executable edge-by-edge check Grid.feasible implies that bound for the concrete periodic grid of ANY size and '
        'for sum / steps / bottleneck criteria; edge-sum = node-sum - half the end points; wrapped / fractional coordinates inside the grid. Tie: every returned '
        'path is validated (Lean validPath), its exact cost compared with the certified optimum; percolation minimum over peaks; exp weights by independent float Bellman-Ford.',
        'known finding D7 (minmax-energy returns the dijkstra path) classified by equality with the certified sum-optimum; D6 (wrapped_sites) and D15 (4 corner moves missing, '
        'found by the generated obligation) repaired by fix commits; networkx is not trusted; np.exp weights by tolerance 1e-9',
        '4/C10',
    ),
    'C02': (
        'Theorems: the model\'s periodic distance is the exact minimum over ALL lattice images for every non-degenerate cell (Geometry.minImageSqCert_spec, '
        'metric_posdef, certificate theorem); assign returns the first site whose sphere contains the atom and -1 iff none does; an atom inside two spheres of '
        'radius r forces the centres < 2r apart, so r <= d_min/2 - 0.005 (automatic radius) makes the assignment unique; inner fraction <= 1 + uniqueness => inner '
        'site in {none, outer site}; per-label remap. Tie: states / inner_states of transitions_between_sites vs the model on pool lattices in four orientations, '
        'float / dict / automatic radius, atoms placed through periodic images, 1e-3 A margin.',
        'known finding D16 (MDAnalysis PeriodicKDTree misses neighbours on non-reduced strongly skewed cells) classified by cell class + "no site" outcome; defects D2 '
        '(orientation) and D3 (per-label remap) repaired by fix commits; KD-tree numerics (float32 box) are trusted within the margin; overlapping explicit radii are outside the reading',
        '4/C02',
    ),
    'C11': (
        'Theorems (GProofs/C11.lean): digitize(right=True) puts a distance in the least bin k with d <= k*res (overflow iff none); every (floating atom, atom) pair of a '
        'frame contributes exactly one (state, symbol, bin) cell (frameContribs_length/mem): the per-state distributions partition the pair counts; state codes injective; '
        'label lookup = label of the site itself; histogram bin convention; raw pair counts symmetric in the two species. Tie: every y array of radial_distribution '
        'per (state, symbol) exactly vs brute force over certified minimum-image distances with alternating labels; between-species histogram x shell normalisation. '
        'Names (GProofs/C11Names.lean): the dictionary _get_states builds maps every code that can occur to "@X" on a site / "P->N" in transit / "~>…" otherwise, no entry '
        'overwritten (lookup_table), and filing by name conserves the counts (pooled_total); compared with rdf._get_states on every reachable code in every case.',
        'defect D8 (labels off by one) repaired by a fix commit; "~>" states (atom before its first / after its last site) are pooled: their naming is not fixed by the '
        'statement; distances within 1e-9 of a bin edge (not exactly on it) are skipped; pymatgen distances trusted (cross-checked in C12)',
        '4/C11',
    ),
    'C17': (
        'Theorems (GProofs/C17.lean): number of collected points = number of (operation, position) pairs within the radius; the collected point is the '
        'inverse operation\'s linear part applied to (re-imaged position - moved site), so for an isometric operation its squared distance to the centre equals '
        'that difference\'s squared length; re-imaging moves by whole cells and leaves every component within half a cell; with the radius below half of every '
        'perpendicular width (4 r^2 adj_ii <= det G) the per-axis re-image IS the short periodic image (reimage_is_short_image), hence every point lies within the '
        'radius; supercell folding = s*p mod 1. Tie: 9 space groups x compatible rational lattices, sites near faces, counts / distances / points vs the model.',
        'defect D12 (one-cell re-imaging) repaired by a fix commit; that pymatgen\'s operations are isometries of the chosen lattices is checked per case '
        '(model-isometry), not proved; float matrix products by tolerance 1e-9',
        '4/C17',
    ),
    'C18': (
        'Theorems (GProofs/C18.lean): the per-axis wrap of the difference of two wrapped positions has every component in [-1/2,1/2] and is congruent to '
        'sat - cent; if some periodic image of the bond is shorter than r with r below half of every perpendicular width the direction vector IS that image '
        '(length = periodic distance); symmetrize layout [b*n_ops + k] = R_k^T v_b and, for operation sets closed under transposition, exactly the images R v; '
        'transform applies the matrix to every vector; the autocorrelation definition is 1 at lag 0 and identically 1 for a constant vector. '
        'Tie: tetrahedral clusters with bonds across faces on pool lattices, 6 point groups, exact layout on frame 0.',
        'known finding D13 (fft_autocorrelation uses irfft with its default length 2N-2; an offline unit test pins the defective mean) classified by agreement with the '
        'as-is binary64 twin (direct DFT, bit-close); normalize and the spherical representation are checked on the implementation only (sqrt / trigonometry, no theorem)',
        '4/C18',
    ),
    'C07': (
        'Theorems (GProofs/C07.lean): every analysis of the model takes the cell only through its metric tensor or through fractional coordinates, and a rigid '
        'rotation of the lattice vectors leaves the metric tensor unchanged (metric_rot); a common translation of atoms and sites leaves differences, periodic '
        'distances and sphere membership unchanged (also after re-wrapping the sites, away from ties); translating by k voxels rolls the voxel index by k mod n '
        '(voxel_translate); relabelling sites moves the counts with them; reordering the site list moves the assigned index with the site. Tie: metamorphic pairs on the '
        'implementation: base system vs 3 rotations, 2 translations (dyadic / voxel multiples), atom and site permutations, on states, events, jumps, matrix, diffusivity, '
        'collective count, per-state RDFs, metrics, density volume, free energy, path cost. End to end (GProofs/C07Pipe.lean): the per-atom chain positions -> states -> '
        'events -> jumps as ONE function (GModel.Pipeline.run) is unchanged by a rotation of the cell, a common translation, whole-cell shifts of single positions (NoTie), and is '
        'renamed consistently by a reordering of the site list (non-overlapping spheres) for EVERY minimal residence (run_rot, run_translate, run_shift_atoms, '
        'jumpsOfHistory_relabel, run_perm_sites); the implementation is compared with Pipeline.run in every representation of every system.',
        'site assignment / events / jumps are proved invariant end to end; for the other analyses (RDF, volume, free energy, paths, metrics) the theorems cover the mechanisms '
        '(metric, translation, roll, relabelling) and the invariance of the pipeline is checked metamorphically on the implementation; non-reduced strongly skewed cells are excluded (D16 of C02); NoTie',
        '4/C07',
    ),
    'C14': (
        'Theorems (GProofs/C14.lean, over Q): scaling the cell by k multiplies the volume by k^3 and squared lengths by k^2, hence density / k^3 and diffusivities x k^2; time step x s '
        'divides diffusivities by s; conductivity quadratic in the ion charge; the speed series telescopes to the final distance and cutting it at sign changes loses nothing: the '
        'vibration amplitudes of an atom sum to its final distance (amplitudes_sum_final); mean frequency invariant under amplitude scaling of the spectrum and divided by s when '
        'frequencies are; identical motion gives the centre of mass the same motion (Haven ratio 1). Tie: all metrics vs their formulas from exact model quantities (relative 1e-9) and '
        'scaling laws as metamorphic pairs on the implementation.',
        'scipy.signal.periodogram is trusted (only the weighted-mean algebra of meanfreq is proved); sqrt/std by tolerance; TrajectoryMetricsStd checked against numpy mean/std of its parts',
        '4/C14',
    ),
    'C16': (
        'Theorems (GProofs/C16.lean) on the loader state machine, parametric in parser, file naming and codec (round trip + prefix-free): a load on a consistent file system returns '
        'parse(args) and leaves a complete cache (load_correct, load_then_hit); for EVERY history of loads, truncations at any byte, deletions and prefix-undecodable garbage every load '
        'returns parse(args) provided the parser result is determined by the file name (load_correct_any_faults_partial); counterexamples show the need of Keyed (D11) and of the '
        'garbage-prefix condition; generated obligations: per loader every parameter the parser reads reaches the default cache name (regenerated from trajectory.py each run). '
        'Names (GProofs/C16Names.lean): Path.with_suffix keeps all but the LAST component of the file name (with_suffix_forgets_last; asWas_collision = defect D17), the name determines '
        'hash and template, so a hash over (file, options) that is injective on the keys in use gives distinct names (distinct_of_hashed); regenerated per loader: what is hashed, what is in the '
        'template, which file carries it (GGen/CacheNames), obligations carriers_hashed and *_used_hashed. '
        'Tie: real from_lammps / from_vasprun / stubbed from_gromacs on generated files, truncation at byte k, garbage, fault cycles vs the model, argument matrix; sibling source files in one '
        'directory (names differing in a middle part / only in the last suffix), their cache files named as the model names them.',
        'the unrestricted statement load_correct_any_faults is FALSE for garbage whose proper prefix decodes (counterexample theorem); pickle prefix-freeness / round trip are hypotheses, '
        'checked on the real files at every tested prefix; torn writes other than prefixes, fsync order and concurrent loaders are not modelled; from_gromacs runs against a stub of MDAnalysis.Universe; D11 and D17 repaired by fix commits',
        '4/C16',
    ),
    'C13': (
        'Theorems (GProofs/C13.lean) on the list-level model that follows the code path (selection through filter = through wrapped '
        'positions): the corrected trajectory keeps the original base positions and first frame; under SmallSteps and a non-empty '
        'reference selection the residual per-frame drift of the reference atoms is zero in EVERY frame (residual_drift_zero) and a second '
        'correction returns the very same state (idempotent); algebraic core mean_sub_mean, minImg1_small_shift; small_steps_needed shows '
        'the precondition is necessary. Tie: exact on dyadic inputs (1,2,4 reference atoms), 1e-12 otherwise; Element and Species inputs; all selection forms.',
        'first_frame_unchanged is proved for frames of 3*atoms coordinates (first_frame_unchanged_partial; the unrestricted statement is false for malformed frame '
        'lengths, counterexample in the file); rigid-drift invariance is proved (C13Rigid.rigid_drift_invariant, under SmallRaw); floating = complement of fixed is checked on the implementation '
        '(all selection forms, exact); SmallSteps is a domain precondition; defect D10 repaired by a fix commit',
        '4/C13',
    ),
    'C15': (
        'Theorems (GProofs/C15.lean): a state machine of the trajectory container (positions/displacements storage, base positions) — every '
        'mode switch keeps the state well formed and keeps the positions it denotes; by induction NO sequence of read-only queries changes '
        'what a later query returns (history_preserves_abs, reads_stable); filter/slice/extend hold exactly the selected atoms/frames in '
        'either storage mode; Python slice index semantics. Tie: random op sequences on sources and derived objects, every array exact.',
        'constant-cell trajectories; an empty selection is refused by pymatgen (expected); split frame ranges are covered by C19 theorems; '
        'trusted: pymatgen __getitem__/extend/constructor as modelled',
        '4/C15',
    ),
    'C20': (
        'Theorems (GProofs/C20.lean) about a model of weakref.ref + functools.lru_cache with reusable addresses: for EVERY sequence of '
        'creations, calls and drops (address reuse, eviction included) each call returns f(object called, args) (memo_transparent), a hit is '
        'always an entry of the calling object, size <= maxsize, values without back-references never keep a dropped object alive '
        '(no_leak); leak_witness for D14. Tie: the real id() of every object is fed to the model and its hit/miss/size trace + liveness are '
        'compared op by op with cache_info() and weakref callbacks; real Transitions/Jumps/TrajectoryMetrics objects.',
        'known finding D14 (cached Collective stores its Jumps) reported as KNOWN-FINDING; CPython weakref/lru semantics are modelled, not '
        'verified (validated by the op-by-op trace comparison); objects assumed immutable between calls',
        '4/C20',
    ),
})

NOT_APPLICABLE: list[dict] = []


def main():
    checks = []
    for pid, (text, note, ref) in sorted(CHECKS.items()):
        checks.append({
            'property_id': pid,
            'quick_cmd': f'./check {pid} quick',
            'thorough_cmd': f'./check {pid} thorough',
            'evidence_file': f'evidence/{pid}.json',
            'replay_cmd_template': f'./check {pid} replay {{path}}',
            'engine': 'lean-model+correspondence',
            'level_claimed': {'category': 'proof', 'text': text + (' ' + SLICES[pid] if pid in SLICES else ''), 'design_ref': f'DESIGN.md section {ref} and 12.3 / 12.8'},
            'level_note': note,
            'technique': TECH,
        })
    claimed = set(CHECKS)
    props = [json.loads(l)['id'] for l in (VERIF / 'properties.jsonl').read_text().splitlines() if l.strip()]
    na = [x for x in NOT_APPLICABLE if x['property_id'] not in claimed]
    for pid in props:
        if pid not in claimed and pid not in {x['property_id'] for x in na}:
            na.append({'property_id': pid, 'reason': 'check under construction in this round (model and harness not yet committed); the technique applies, see DESIGN.md section 4'})
    manifest = {
        'version': 1,
        'setup_cmd': 'cd lean && lake build GModel GProofs driver',
        'hooks': {
            'guard': 'GEMDAT_VERIF',
            'enable': 'no hooks are needed: every observable is reachable through the public API, module-level helpers, __wrapped__ and cache_info',
            'baseline_off_cmd': 'cd /repo && /venv/bin/python -m pytest -ra -q -p no:cacheprovider --timeout=900 --continue-on-collection-errors',
            'source_commits': [],
            'add_only': True,
        },
        'engines': [{
            'name': 'lean-model+correspondence',
            'path': 'lean/ (GModel, GProofs, Main.lean) + harness/',
            'serves_properties': sorted(claimed),
            'kind_free_text': 'Lean 4 executable model with machine-checked theorems; compiled line-protocol driver; Python harness running the real gemdat in-process',
        }],
        'checks': checks,
        'notes': 'Exit 0 = held; 1 = VIOLATION line; 2 = harness error. KNOWN-FINDING lines list committed known_findings.json entries. See DESIGN.md.',
        'not_applicable': na,
    }
    (VERIF / 'MANIFEST.json').write_text(json.dumps(manifest, indent=1) + '\n')
    print(f'{len(checks)} checks, {len(na)} not yet claimed')


if __name__ == '__main__':
    main()
