"""C14 — derived metrics obey their formulas and physical scaling laws."""

from __future__ import annotations

import json
import warnings
from fractions import Fraction

import numpy as np
from pymatgen.core import Element
from scipy.constants import Avogadro, Boltzmann, angstrom, elementary_charge

from . import core, gem, trajsc, translate
from .core import Outcome, PropertySpec, enc

from gemdat.metrics import TrajectoryMetrics, TrajectoryMetricsStd  # noqa: E402

PID = 'C14'
MODULES = ['GProofs.C06', 'GProofs.C14', 'GProofs.C14Gen']


def gen_case(rng):
    name, lat = gem.lattice_pool(rng)
    if rng.random() < 0.35:
        # a left-handed set of cell vectors (two axes listed in swapped order, or one axis mirrored) is a legal cell
        lat = lat[[1, 0, 2]] if rng.random() < 0.5 else lat * np.array([1, 1, -1])
        name += '+left-handed'
    T = int(rng.integers(4, 40))
    species = [str(rng.choice(['Li', 'Na', 'O'])) for _ in range(int(rng.integers(1, 5)))]
    A = len(species)
    c = trajsc.fix_ties(rng, trajsc.rand_coords(rng, T, A, step_scale=int(rng.choice([3, 10]))))
    return {'lattice_name': name, 'lattice': lat.tolist(), 'species': species, 'coords': c.tolist(),
            'time_step': float(rng.choice([1e-15, 2e-15])), 'temperature': float(rng.choice([300.0, 650.0])),
            'k': float(rng.choice([0.5, 2.0, 4.0, 2.0 ** -10, 2.0 ** -14, 2.0 ** 9])), 's': float(rng.choice([0.5, 2.0, 8.0]))}


def build(case, lat=None, dt=None, coords=None):
    return gem.make_traj(np.array(case['coords'] if coords is None else coords, float),
                         np.array(case['lattice'] if lat is None else lat, float), case['species'],
                         time_step=case['time_step'] if dt is None else dt, metadata={'temperature': case['temperature']})


def rel(a, b, tol=1e-9):
    a, b = float(a), float(b)
    if np.isnan(a) and np.isnan(b):
        return True
    return abs(a - b) <= tol * max(abs(a), abs(b), 1e-300)


def check_case(out: Outcome, case, tag):
    lat = np.array(case['lattice'], float)
    coords = np.array(case['coords'], float)
    species = case['species']
    T, A, _ = coords.shape
    dt, temp = case['time_step'], case['temperature']
    out.evaluations += 1
    with warnings.catch_warnings():
        warnings.simplefilter('ignore')
        tr = build(case)
        m = TrajectoryMetrics(tr)
        # exact quantities from the model
        r = trajsc.parse_model(core.drive1(trajsc.model_line(lat, [coords], [('R', 0), ('C', 0)])))
        dist2 = np.array([float(v) for v in r[0][1]]).reshape(T, A)
        cum = np.array([float(v) for v in r[1][1]]).reshape(T, A, 3)
        det = Fraction(core.dec_rat(core.drive1(f'latinfo {gem.enc_m3(lat)}').split()[1]))
        vol = abs(float(det))
        total_time = T * dt
        # --- formulas
        dens = A / (vol * angstrom ** 3)
        if not rel(m.particle_density(), dens):
            out.fail('property', 'particle-density', case, expected=dens, observed=float(m.particle_density()))
        if not rel(m.mol_per_liter(), dens * 1e-3 / Avogadro):
            out.fail('property', 'molarity', case, expected=dens * 1e-3 / Avogadro, observed=float(m.mol_per_liter()))
        for dims in (1, 2, 3):
            D = float(np.mean(dist2[-1])) * angstrom ** 2 / (2 * dims * total_time)
            if not rel(m.tracer_diffusivity(dimensions=dims), D):
                out.fail('property', 'tracer-diffusivity', case, expected=D, observed=float(m.tracer_diffusivity(dimensions=dims)), note=f'd={dims}')
            for z in (1, 2, 3):
                sig = elementary_charge ** 2 * z ** 2 * D * dens / (Boltzmann * temp)
                if not rel(m.tracer_conductivity(z_ion=z, dimensions=dims), sig):
                    out.fail('property', 'tracer-conductivity', case, expected=sig, observed=float(m.tracer_conductivity(z_ion=z, dimensions=dims)), note=f'z={z} d={dims}')
            # centre of mass: mass-weighted mean of the unwrapped positions
            w = np.array([float(Element(s).atomic_mass) for s in species])
            com = np.einsum('a,tai->ti', w, cum) / w.sum()
            com_d2 = float((com[-1] @ lat) @ (com[-1] @ lat))
            Dcom = com_d2 * angstrom ** 2 / (2 * dims * total_time)
            got_com = float(m.tracer_diffusivity_center_of_mass(dimensions=dims))
            if not rel(got_com, Dcom, 1e-8):
                out.fail('property', 'com-diffusivity', case, expected=Dcom, observed=got_com, note=f'd={dims}')
            if Dcom > 0 and not rel(m.haven_ratio(dimensions=dims), D / Dcom, 1e-8):
                out.fail('property', 'haven-ratio', case, expected=D / Dcom, observed=float(m.haven_ratio(dimensions=dims)))
        # --- amplitudes: pieces of the speed series cut at sign changes; they sum to the final distance
        speed = np.array(m.speed())  # [atom, frame]
        dists = np.sqrt(dist2).T
        if not np.allclose(speed, np.diff(dists, prepend=0), rtol=1e-9, atol=1e-12):
            out.fail('property', 'speed-is-distance-difference', case)
        amps = np.array(m.amplitudes())
        want_amps = []
        for a in range(A):
            line = 'amps ' + ' '.join([str(T)] + [enc(v) for v in speed[a].tolist()])
            want_amps += [float(core.dec_rat(t)) for t in core.drive1(line).split()[1:]]
        if len(amps) != len(want_amps) or not np.allclose(amps, want_amps, rtol=1e-9, atol=1e-12):
            out.fail('property', 'amplitudes', case, expected=want_amps[:8], observed=amps.tolist()[:8])
        if not rel(amps.sum(), dists[:, -1].sum(), 1e-9) and abs(amps.sum() - dists[:, -1].sum()) > 1e-9:
            out.fail('property', 'amplitudes-sum-to-final-distance', case, expected=float(dists[:, -1].sum()), observed=float(amps.sum()))
        if not rel(m.vibration_amplitude(), np.std(want_amps), 1e-9):
            out.fail('property', 'vibration-amplitude', case, expected=float(np.std(want_amps)), observed=float(m.vibration_amplitude()))
        # --- attempt frequency: power-weighted mean frequency of the one-sided periodogram of every atom's speed series, taken on the
        #     trajectory's OWN frames (no padding): mean and standard deviation over the atoms
        def ref_meanfreq(x, fs):
            n_ = len(x)
            X = np.fft.rfft(x - x.mean())
            P = np.abs(X) ** 2 / (fs * n_)
            if n_ % 2 == 0:
                P[1:-1] *= 2
            else:
                P[1:] *= 2
            f_ = np.arange(len(X)) * fs / n_
            return float((P * f_).sum() / P.sum()) if P.sum() > 0 else float('nan')
        fs_ = 1.0 / dt
        mf = np.array([ref_meanfreq(speed[a], fs_) for a in range(A)])
        f_got, s_got = m.attempt_frequency()
        if np.all(np.isfinite(mf)):
            if not (rel(f_got, np.mean(mf), 1e-9) and (rel(s_got, np.std(mf), 1e-6) or abs(float(s_got) - float(np.std(mf))) < 1e-9 * abs(np.mean(mf)))):
                out.fail('property', 'attempt-frequency', case, expected=[float(np.mean(mf)), float(np.std(mf))], observed=[float(f_got), float(s_got)],
                         note=f'{T} frames')
        # --- scaling laws (implementation vs implementation)
        k, s = case['k'], case['s']
        mk = TrajectoryMetrics(build(case, lat=lat * k))
        ms = TrajectoryMetrics(build(case, dt=dt * s))
        f0, f0s = m.attempt_frequency()
        checks = [
            ('scale-cell-diffusivity', mk.tracer_diffusivity(dimensions=3), m.tracer_diffusivity(dimensions=3) * k ** 2),
            ('scale-cell-com-diffusivity', mk.tracer_diffusivity_center_of_mass(dimensions=3), m.tracer_diffusivity_center_of_mass(dimensions=3) * k ** 2),
            ('scale-cell-density', mk.particle_density(), m.particle_density() / k ** 3),
            ('scale-cell-vibration-amplitude', mk.vibration_amplitude(), m.vibration_amplitude() * k),
            ('scale-cell-attempt-frequency', mk.attempt_frequency()[0], f0),
            ('scale-time-diffusivity', ms.tracer_diffusivity(dimensions=3), m.tracer_diffusivity(dimensions=3) / s),
            ('scale-time-attempt-frequency', ms.attempt_frequency()[0], f0 / s),
            ('scale-time-attempt-frequency-std', ms.attempt_frequency()[1], f0s / s),
            ('scale-time-density', ms.particle_density(), m.particle_density()),
        ]
        for clause, got, want in checks:
            if not rel(got, want, 1e-9):
                out.fail('property', clause, case, expected=float(want), observed=float(got))
        if not np.allclose(np.array(mk.amplitudes()), amps * k, rtol=1e-9, atol=1e-12):
            out.fail('property', 'scale-cell-amplitudes', case)
        # --- a trajectory that grows: metrics asked, trajectory extended in place, metrics asked of a NEW metrics object while the
        #     old one is still alive -> the answers describe the extended trajectory
        if T >= 6:
            h = T // 2
            first = build(case, coords=coords[:h])
            m_old = first.metrics()
            _ = (m_old.tracer_diffusivity(dimensions=3), m_old.particle_density(), m_old.amplitudes(), m_old.speed())
            first.extend(build(case, coords=coords[h:]))
            m_new = first.metrics()
            c2 = {**case, 'history': 'metrics queried on the first half, extend(second half), new metrics() object queried'}
            if not rel(m_new.tracer_diffusivity(dimensions=3), m.tracer_diffusivity(dimensions=3), 1e-9):
                out.fail('property', 'tracer-diffusivity', c2, expected=float(m.tracer_diffusivity(dimensions=3)), observed=float(m_new.tracer_diffusivity(dimensions=3)))
            elif np.array(m_new.speed()).shape != np.array(m.speed()).shape or not np.allclose(np.array(m_new.amplitudes()), amps, rtol=1e-9, atol=1e-12):
                out.fail('property', 'amplitudes', c2, expected=amps.tolist()[:8], observed=np.array(m_new.amplitudes()).tolist()[:8])
            del m_old
        # --- atoms that all move identically: Haven ratio one
        same = np.repeat(coords[:, :1, :] - coords[:1, :1, :], A, axis=1) + coords[:1]
        if np.any(same[-1] != same[0]):
            hm = TrajectoryMetrics(build(case, coords=same))
            hv = float(hm.haven_ratio(dimensions=3))
            if not rel(hv, 1.0, 1e-9):
                out.fail('property', 'haven-one-for-identical-motion', case, expected=1.0, observed=hv)
        # --- mean / standard deviation over sub-trajectories
        if T >= 8:
            parts = tr.split(2)
            std = TrajectoryMetricsStd(parts)
            vals = [float(TrajectoryMetrics(p).tracer_diffusivity(dimensions=3)) for p in parts]
            u = std.tracer_diffusivity(dimensions=3)
            if not (rel(u.n, np.mean(vals)) and rel(u.s, np.std(vals), 1e-6)):
                out.fail('property', 'std-class-diffusivity', case, expected=[float(np.mean(vals)), float(np.std(vals))], observed=[u.n, u.s])
            cv = [float(TrajectoryMetrics(p).tracer_conductivity(z_ion=2, dimensions=3)) for p in parts]
            uc = std.tracer_conductivity(z_ion=2, dimensions=3)
            if not (rel(uc.n, np.mean(cv)) and rel(uc.s, np.std(cv), 1e-6)):
                out.fail('property', 'std-class-conductivity', case, expected=[float(np.mean(cv)), float(np.std(cv))], observed=[uc.n, uc.s])
    if A >= 2 and len(set(species)) >= 2:
        out.nontrivial.add(json.dumps(case, sort_keys=True))
    if len(out.samples) < 2 and T * A <= 16:
        out.sample({'tag': tag, **case})


def check_displacement_input(out: Outcome, rng):
    """a trajectory handed over as per-frame displacements from given base positions (a continued run: the first displacement is
    not zero): distances, speeds and amplitudes refer to the BASE positions"""
    name, lat = gem.lattice_pool(rng)
    T, A = int(rng.integers(4, 30)), int(rng.integers(1, 4))
    disp = rng.integers(-6, 7, size=(T, A, 3)) / 64
    base = rng.integers(0, 64, size=(A, 3)) / 64
    case = {'displacement_input': True, 'lattice_name': name, 'lattice': lat.tolist(), 'displacements': disp.tolist(), 'base': base.tolist()}
    out.evaluations += 1
    with warnings.catch_warnings():
        warnings.simplefilter('ignore')
        tr = gem.make_traj(disp, lat, ['Li'] * A, time_step=1e-15, metadata={'temperature': 300.0}, coords_are_displacement=True, base_positions=base)
        m = TrajectoryMetrics(tr)
        cum = np.cumsum(disp, axis=0)
        dist = np.linalg.norm(cum @ lat, axis=-1).T  # [atom, frame]
        got_d = np.array(tr.distances_from_base_position())
        if got_d.shape != dist.shape or not np.allclose(got_d, dist, rtol=1e-9, atol=1e-12):
            out.fail('property', 'distance-from-base', case, expected=dist.tolist(), observed=got_d.tolist())
            return
        speed = np.array(m.speed())
        if not np.allclose(speed, np.diff(dist, prepend=0), rtol=1e-9, atol=1e-12):
            out.fail('property', 'speed-is-distance-difference', case, expected=np.diff(dist, prepend=0).tolist(), observed=speed.tolist())
        amps = np.array(m.amplitudes())
        if abs(amps.sum() - dist[:, -1].sum()) > 1e-9 * max(1.0, dist[:, -1].sum()):
            out.fail('property', 'amplitudes-sum-to-final-distance', case, expected=float(dist[:, -1].sum()), observed=float(amps.sum()))
        D = float(np.mean(dist[:, -1] ** 2)) * angstrom ** 2 / (2 * 3 * T * 1e-15)
        if not rel(m.tracer_diffusivity(dimensions=3), D):
            out.fail('property', 'tracer-diffusivity', case, expected=D, observed=float(m.tracer_diffusivity(dimensions=3)))
    out.nontrivial.add(json.dumps(case, sort_keys=True))


def corpus():
    d = core.CORPUS / PID
    return [json.loads(p.read_text()) for p in sorted(d.glob('*.json'))] if d.exists() else []


def run(tier: str, seed: int, scale: int) -> Outcome:
    out = Outcome()
    rng = np.random.default_rng(seed)
    for case in corpus():
        check_case(out, case, 'corpus')
    for _ in range((150 if tier == 'quick' else 1500) * scale):
        check_case(out, gen_case(rng), 'random')
    for _ in range((40 if tier == 'quick' else 400) * scale):
        check_displacement_input(out, rng)
    return out


def replay(case):
    out = Outcome()
    if case.get('displacement_input'):
        return True, 'displacement-input case: re-run ./check C14 quick with the recorded seed'
    check_case(out, case, 'replay')
    fails = [f for f in out.failures if f.kind == 'property']
    text = '\n'.join(f'{f.clause}: expected {str(f.expected)[:200]} observed {str(f.observed)[:200]} {f.note}' for f in fails) or 'no failure'
    return (not fails), text


SPEC = PropertySpec(
    pid=PID,
    modules=MODULES,
    run=run,
    replay=replay,
    gen=translate.gen_for('FormulasC14'),
    rule=('random dyadic walks (4-39 frames, 1-4 atoms of Li/Na/O, so masses differ) on pool lattices, T in {300,650}, time step '
          '{1,2} fs: particle density, molarity, tracer diffusivity (d=1,2,3), tracer conductivity (z=1,2,3), centre-of-mass '
          'diffusivity, Haven ratio against their formulas evaluated from the exact model quantities (relative 1e-9, never absolute); '
          'speed = differences of distances; amplitudes vs the Lean split-at-sign-change model and their sum = sum of final distances; '
          'scaling laws as metamorphic pairs on the implementation: cell x k in {0.5,2,4} (D x k^2, amplitudes x k, density / k^3, '
          'attempt frequency unchanged), time step x s in {0.5,2,8} (D / s, frequency / s); identical motion of all atoms gives Haven '
          'ratio 1; TrajectoryMetricsStd mean/std over two parts. Non-trivial: >= 2 atoms of >= 2 species.'),
    trusted=['scipy.signal.periodogram (only the weighted-mean algebra of meanfreq is proved)', 'scipy.constants; pymatgen atomic masses', 'np.sqrt / np.std'],
    assumptions=['k, s dyadic so that scaled inputs are exactly representable'],
)
