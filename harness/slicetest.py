"""Development aid (not a registered command): which stored seeded changes break a translated slice?

  /venv/bin/python -m harness.slicetest > /tmp/slicetest.log

For every /verif/seeded/<id>/patch.diff: apply to /repo, regenerate lean/GGen, and if a slice could not be translated or a generated
file changed, build the obligation modules; report; undo the patch and regenerate from the clean tree.
"""

from __future__ import annotations

import json
import subprocess
import sys
from pathlib import Path

VERIF = Path(__file__).resolve().parents[1]
GEN_MODULES = ['GProofs.C01Gen', 'GProofs.C02Gen', 'GProofs.C04Gen', 'GProofs.C05Gen', 'GProofs.C06Gen', 'GProofs.C08Gen', 'GProofs.C09Gen', 'GProofs.C10',
               'GProofs.C10Gen', 'GProofs.C11Gen', 'GProofs.C12Gen', 'GProofs.C12Win', 'GProofs.C14Gen', 'GProofs.C16', 'GProofs.C17Gen', 'GProofs.C18Gen',
               'GProofs.C19Gen', 'GProofs.C20Gen']


def sh(cmd, cwd=None):
    p = subprocess.run(cmd, cwd=cwd, capture_output=True, text=True)
    return p.returncode, p.stdout + p.stderr


def snapshot():
    return {p.name: p.read_text() for p in (VERIF / 'lean' / 'GGen').glob('*.lean')}


def main(argv):
    from harness import translate
    rc, st = sh(['git', '-C', '/repo', 'status', '--porcelain'])
    if st.strip():
        print('/repo is not clean'); return 2
    translate.generate()
    clean = snapshot()
    ids = argv or sorted(p.name for p in (VERIF / 'seeded').iterdir() if (p / 'patch.diff').exists())
    result = {}
    for sid in ids:
        try:
            rca, _ = sh(['git', '-C', '/repo', 'apply', str(VERIF / 'seeded' / sid / 'patch.diff')])
            if rca != 0:
                print(sid, 'patch does not apply'); continue
            ok, log = translate.generate()
            now = snapshot()
            changed = sorted(k for k in now if now[k] != clean.get(k))
            broken = None
            if not ok:
                broken = 'untranslatable: ' + '; '.join(x for x in log.split('; ') if not x.endswith(': ok'))[:300]
            elif changed:
                rcb, outb = sh(['lake', 'build'] + GEN_MODULES, cwd=VERIF / 'lean')
                if rcb != 0:
                    bad = sorted({l.split()[-1] for l in outb.splitlines() if l.startswith('- GProofs')})
                    broken = 'obligation fails: ' + ', '.join(bad)
            result[sid] = {'changed_slices': changed, 'broken': broken}
            print(sid, 'BROKEN' if broken else ('changed-but-proved' if changed else 'untouched'), changed, broken or '', flush=True)
        finally:
            sh(['git', '-C', '/repo', 'checkout', '--', '.'])
    translate.generate()
    n = sum(1 for v in result.values() if v['broken'])
    print(f'{n} of {len(result)} seeded changes break a translated slice')
    (VERIF / 'seeded' / 'slices.json').write_text(json.dumps(result, indent=1) + '\n')
    return 0


if __name__ == '__main__':
    sys.exit(main(sys.argv[1:]))
