"""C08 — density volumes conserve every sample and use a consistent voxel mapping."""

from __future__ import annotations

import json
import math
from fractions import Fraction

import numpy as np
from pymatgen.core import Lattice

from . import core, gem, trajsc, translate
from .core import Outcome, PropertySpec, enc

from gemdat.volume import Volume, trajectory_to_volume  # noqa: E402

PID = 'C08'
MODULES = ['GProofs.C08', 'GProofs.C08Fl', 'GProofs.C08Gen']
RES = [0.5, 0.75, 1.0, 1.25, 2.0, 3.0]


def lengths_sq(lat):
    return [sum(Fraction(float(v)) ** 2 for v in row) for row in np.asarray(lat).tolist()]


def gen_case(rng):
    name, lat = gem.lattice_pool(rng)
    T, A = int(rng.integers(1, 8)), int(rng.integers(1, 5))
    den = int(rng.choice([64, 64, 7, 10, 3]))  # also non-dyadic grids of coordinates
    c = rng.integers(-2 * den, 3 * den + 1, size=(T, A, 3)) / den
    # put some samples exactly on and next to cell faces
    if rng.random() < 0.5:
        c[0, 0] = rng.choice([0.0, 1.0, -1.0, 0.5, 63 / 64, 1 / 64], size=3)
    if rng.random() < 0.06:
        # an axis length within 2e-7 (relative) of a whole number of resolutions, from below or above: floor(L / res) must not be rounded
        res = float(rng.choice([0.5, 0.75, 1.25]))
        ks = rng.integers(2, 9, size=3)
        eps = rng.choice([-2e-7, 2e-7, -3e-8], size=3)
        lat = np.diag(ks * res * (1 + eps))
        return {'lattice_name': 'near-multiple', 'lattice': lat.tolist(), 'coords': c.tolist(), 'resolution': res}
    if rng.random() < 0.03:
        # a long, thin cell: several hundred voxels along one axis (index types, strides), few along the others
        lat = np.array([[66.5, 0.0, 0.0], [0.5, 2.5, 0.0], [0.25, 0.5, 3.25]])[rng.permutation(3)]
        return {'lattice_name': 'long-thin', 'lattice': lat.tolist(), 'coords': c.tolist(), 'resolution': float(rng.choice([0.2, 0.13]))}
    return {'lattice_name': name, 'lattice': lat.tolist(), 'coords': c.tolist(), 'resolution': float(rng.choice(RES))}


def check_case(out: Outcome, case, tag):
    lat = np.array(case['lattice'], float)
    coords = np.array(case['coords'], float)
    res = case['resolution']
    T, A, _ = coords.shape
    out.evaluations += 1
    L = Lattice(lat).lengths
    # margin: L/res must not sit within 1e-9 of an integer (float floor-division inside the implementation)
    if any(abs(l / res - round(l / res)) < 1e-9 and abs(l / res - round(l / res)) != 0 for l in L):
        out.count('skipped-margin')
        return
    tr = gem.make_traj(coords, lat, ['Li'] * A)
    try:
        vol = trajectory_to_volume(tr, resolution=res)
    except Exception as e:  # noqa: BLE001
        out.fail('property', 'volume-build', case, observed=type(e).__name__ + ': ' + str(e)[:100])
        return
    data = np.array(vol.data)
    lsq = lengths_sq(lat)
    r = core.drive([(str(k), f'nvox {enc(q)} {enc(res)}') for k, q in enumerate(lsq)])
    nv = [int(r[str(k)].split()[1]) for k in range(3)]
    if list(data.shape) != nv:
        out.fail('property', 'grid-size', case, expected=nv, observed=list(data.shape),
                 note='n = floor(L / resolution) per axis')
        return
    # conservation
    if int(data.sum()) != T * A:
        out.fail('property', 'voxel-sum-equals-samples', case, expected=T * A, observed=int(data.sum()))
    if (data < 0).any():
        out.fail('property', 'negative-count', case)
    # which voxel: floor(coordinate x grid size), computed exactly on the wrapped positions
    pos = np.array(tr.positions).reshape(-1, 3)
    want = np.zeros(nv, dtype=int)
    boundary_ambiguous = False
    for p in pos.tolist():
        idx = []
        for x, n in zip(p, nv):
            fx = Fraction(float(x)) * n
            k = math.floor(fx)
            # a coordinate within 4 ulp of a non-representable boundary is only checked for conservation
            if fx != k and min(fx - k, k + 1 - fx) < Fraction(n, 2**50):
                boundary_ambiguous = True
            idx.append(k)
        want[tuple(idx)] += 1
    if boundary_ambiguous:
        out.count('boundary-ambiguous-conservation-only')
    elif not np.array_equal(data, want):
        out.fail('property', 'voxel-is-floor-of-coordinate-times-grid', case, expected=want.tolist(), observed=data.tolist())
    # model
    pts = ' '.join([str(len(pos))] + [enc(v) for p in pos.tolist() for v in p])
    m = np.array(list(map(int, core.drive1(f'volume {nv[0]} {nv[1]} {nv[2]} {pts}').split()[1:])), dtype=int).reshape(nv)
    if not boundary_ambiguous and not np.array_equal(m, data):
        out.fail('property' if not np.array_equal(data, want) else 'correspondence', 'model-volume', case, expected=m.tolist(), observed=data.tolist())
    # additivity (C08.counts_append_get): the volumes of the two halves of the run, taken from the SAME trajectory object, add up to the
    # volume of the whole, voxel by voxel
    if T >= 2:
        h = 1 + (T + A) % (T - 1)
        try:
            va, vb = np.array(trajectory_to_volume(tr[:h], resolution=res).data), np.array(trajectory_to_volume(tr[h:], resolution=res).data)
            if va.shape != data.shape or not np.array_equal(va + vb, data):
                out.fail('property', 'volume-additive-over-parts', {**case, 'cut_at_frame': h}, expected=int(data.sum()),
                         observed=int(va.sum() + vb.sum()) if va.shape == data.shape else list(va.shape),
                         note='volume(frames[:h]) + volume(frames[h:]) differs from volume(all frames)')
        except Exception as e:  # noqa: BLE001
            out.fail('property', 'volume-build', {**case, 'cut_at_frame': h}, observed=type(e).__name__ + ': ' + str(e)[:100])
    # voxel size: resolution <= edge < 2 x resolution
    vs = np.array(vol.voxel_size)
    for l, n, v in zip(L, nv, vs):
        if l >= res and not (res <= v * (1 + 1e-12) and v < 2 * res):
            out.fail('property', 'voxel-size-bounds', case, expected=f'{res} <= edge < {2 * res}', observed=float(v))
        if not np.isclose(v, l / n, rtol=1e-12):
            out.fail('property', 'voxel-size-value', case, expected=l / n, observed=float(v))
    occ = int((data > 0).sum())
    if occ >= 2 and len(set(data[data > 0].tolist())) >= 2 and (data == 0).any() and len(set(nv)) >= 2:
        out.nontrivial.add(json.dumps(case, sort_keys=True))
    if len(out.samples) < 2 and T * A <= 6 and occ >= 2:
        out.sample({'tag': tag, **case, 'grid': nv, 'nonzero': {str(k): int(data[tuple(k)]) for k in np.argwhere(data > 0).tolist()}})


def check_roundtrip(out: Outcome, nmax):
    """frac_coords_to_voxel(voxel_to_frac_coords(v)) == v for every voxel of every grid size up to nmax (implementation, float)"""
    lat = Lattice(np.eye(3) * 10.0)
    bad = []
    for n in range(1, nmax + 1):
        vol = Volume(data=np.zeros((n, 1, 1)), lattice=lat)
        v = np.stack([np.arange(n), np.zeros(n, int), np.zeros(n, int)], axis=1)
        back = vol.frac_coords_to_voxel(vol.voxel_to_frac_coords(v))
        if not np.array_equal(back, v):
            k = int(np.argwhere(back[:, 0] != v[:, 0])[0][0])
            bad.append((n, k, int(back[k, 0])))
            if len(bad) > 3:
                break
    out.evaluations += nmax
    out.extra['roundtrip_checked_up_to_n'] = nmax
    for n, k, b in bad:
        out.fail('property', 'voxel-roundtrip', {'roundtrip_n': n, 'voxel': k}, expected=k, observed=b)
    # model side on a sample of sizes
    for n in (1, 2, 3, 7, 10, 64, 97, 1000):
        if core.drive1(f'roundtrip {n}') != 'ok 1':
            out.fail('correspondence', 'model-roundtrip', {'roundtrip_n': n})
    # three-axis grid with unequal sizes
    vol = Volume(data=np.zeros((3, 4, 5)), lattice=lat)
    allv = np.argwhere(np.ones((3, 4, 5)))
    if not np.array_equal(vol.frac_coords_to_voxel(vol.voxel_to_frac_coords(allv)), allv):
        out.fail('property', 'voxel-roundtrip', {'grid': [3, 4, 5]})
    out.nontrivial.add(('roundtrip', nmax))


def check_bulk(out: Outcome, rng):
    """more than 2^20 samples in one call (block-wise implementations must add up, not overwrite)"""
    lat = np.array(gem.LATTICES['tric'], float)
    T, A = 70000 + int(rng.integers(0, 5000)), 16
    c = rng.integers(0, 64, size=(T, A, 3)) / 64
    c[:, :4] = c[:1, :4]  # four atoms that stay in their voxel: voxels visited in every block
    tr = gem.make_traj(c, lat, ['Li'] * A)
    vol = trajectory_to_volume(tr, resolution=1.0)
    data = np.array(vol.data)
    nv = data.shape
    idx = np.floor(c.reshape(-1, 3) * np.array(nv)).astype(int)  # exact: dyadic coordinates x small integers
    want = np.zeros(nv, dtype=int)
    np.add.at(want, tuple(idx.T), 1)
    out.evaluations += 1
    case = {'bulk': True, 'frames': T, 'atoms': A, 'lattice': lat.tolist(), 'resolution': 1.0, 'note': 're-run ./check C08 quick with the recorded seed'}
    if int(data.sum()) != T * A:
        out.fail('property', 'voxel-sum-equals-samples', case, expected=T * A, observed=int(data.sum()))
    elif not np.array_equal(data, want):
        out.fail('property', 'voxel-is-floor-of-coordinate-times-grid', case, expected='brute-force counts', observed=f'{int((data != want).sum())} voxels differ')
    out.nontrivial.add(('bulk', T))


def corpus():
    d = core.CORPUS / PID
    return [json.loads(p.read_text()) for p in sorted(d.glob('*.json'))] if d.exists() else []


def run(tier: str, seed: int, scale: int) -> Outcome:
    out = Outcome()
    rng = np.random.default_rng(seed)
    for case in corpus():
        check_case(out, case, 'corpus')
    for _ in range((300 if tier == 'quick' else 3000) * scale):
        check_case(out, gen_case(rng), 'random')
    check_roundtrip(out, 2000 if tier == 'quick' else 20000)
    check_bulk(out, rng)
    return out


def replay(case):
    out = Outcome()
    if case.get('bulk'):
        return True, 'bulk case: re-run ./check C08 quick with the recorded seed'
    if 'roundtrip_n' in case:
        check_roundtrip(out, case['roundtrip_n'])
    else:
        check_case(out, case, 'replay')
    fails = [f for f in out.failures if f.kind == 'property']
    text = '\n'.join(f'{f.clause}: expected {str(f.expected)[:200]} observed {str(f.observed)[:200]} {f.note}' for f in fails) or 'no failure'
    return (not fails), text


SPEC = PropertySpec(
    pid=PID,
    modules=MODULES,
    run=run,
    replay=replay,
    gen=translate.gen_for('FormulasC08'),
    rule=('random trajectories (3% on a long thin cell with 330-510 voxels along one axis; 1-7 frames x 1-4 atoms; coordinates on k/64, k/7, k/10, k/3 grids in [-2,3], samples forced onto 0, 1, '
          '-1, 63/64 ...) on pool lattices x resolutions {0.5,0.75,1,1.25,2,3}: grid size = floor(L/res) per axis (exact from the '
          'rational squared length; cases with L/res within 1e-9 of an integer skipped), voxel sum = frames x atoms, every sample in '
          'the voxel floor(coordinate x grid size) computed exactly (coordinates within 2^-50 of a non-representable boundary: '
          'conservation only), res <= voxel edge < 2 res; counts vs the Lean model (np.digitize on linspace edges). Voxel round trip '
          'for every index of every grid size up to the stated bound. Non-trivial: >= 2 occupied voxels with different counts, an '
          'empty voxel and unequal axes.'),
    trusted=['np.linspace edges k/n and np.digitize comparisons agree with exact arithmetic except within rounding distance of a boundary (stated above)',
             'Python float floor division // is the exact floor of the exact quotient (checked on 200000 pairs in the design round)'],
    assumptions=['positions lie in [0,1) (C01); resolution does not exceed the cell lengths for the edge-length bound'],
)
