"""Trajectory scenarios: the same operation sequence on real gemdat Trajectory objects and on the
Lean model (GModel.Traj through the `traj` driver op), compared segment by segment.

op tuples:
  ('P', k) positions        ('D', k) displacements      ('C', k) cumulative displacements
  ('R', k) squared distances from base position         ('B', k) base positions
  ('F', k, mask) filter -> new object                   ('S', k, a, b, c) slice -> new object
  ('I', k, a, b, c, kind) the same frames selected with a list / integer array of indices (kind 'list' | 'array'); model op S
  ('E', k, j) extend k by j                             ('Y', k, mask) drift   ('X', k, mask) drift-corrected -> new object
  ('M', k) mean squared displacement (algorithm and definition)
  ('Q', k, what) read-only analysis query on the implementation only (volume / metrics / msd):
                 mapped to the model op with the same mode effect
"""

from __future__ import annotations

from fractions import Fraction

import numpy as np

from . import core, gem
from .core import enc

SPECIES_POOL = ['Li', 'O', 'S', 'P']


class QueryMismatch(Exception):
    """an analysis query answered with data that does not describe the object it was asked of"""



def enc_obj(coords: np.ndarray) -> str:
    T, A, _ = coords.shape
    return f'{T} {A} ' + ' '.join(enc(v) for v in coords.reshape(-1).tolist())


def enc_mask(mask) -> str:
    return ' '.join([str(len(mask))] + ['1' if b else '0' for b in mask])


def enc_opt(x) -> str:
    return 'N' if x is None else str(int(x))


MODEL_OF_QUERY = {'volume': 'P', 'speed': 'C', 'msd': 'C', 'tracer': 'C', 'density': None}


def model_line(lattice, objs, ops) -> str:
    toks = []
    n = 0
    for op in ops:
        t = op[0]
        if t in 'PDCRBM':
            toks.append(f'{t} {op[1]}')
        elif t in 'FYX':
            toks.append(f'{t} {op[1]} {enc_mask(op[2])}')  # (a container kind in op[3] concerns the implementation only)
        elif t in 'SI':
            toks.append(f'S {op[1]} {enc_opt(op[2])} {enc_opt(op[3])} {enc_opt(op[4])}')
        elif t == 'E':
            toks.append(f'E {op[1]} {op[2]}')
        elif t == 'Q':
            m = MODEL_OF_QUERY[op[2]]
            if m is None:
                continue
            toks.append(f'{m} {op[1]}')
        else:
            raise ValueError(op)
        n += 1
    return f'traj {gem.enc_m3(lattice)} {len(objs)} ' + ' '.join(enc_obj(np.asarray(c, float)) for c in objs) + f' {n} ' + ' '.join(toks)


def parse_model(line: str):
    assert line.startswith('ok'), line[:200]
    segs = []
    for seg in line[3:].split(' ; '):
        tk = seg.split()
        if not tk:
            continue
        tag, vals = tk[0], tk[1:]
        if vals and vals[0] in ('err', 'ok'):
            segs.append((tag, vals[0]))
        elif tag in 'FSX':
            segs.append((tag, int(vals[0])))
        else:
            segs.append((tag, [core.dec_rat(v) for v in vals]))
    return segs


def species_mask(species, names):
    return [s in names for s in species]


def run_impl(lattice, objs, species, ops):
    """Execute ops on real objects. Returns list of (tag, payload) aligned with the model segments
    ('Q' ops with no model counterpart are dropped), plus the list of trajectory objects."""
    trajs = [gem.make_traj(c, lattice, sp) for c, sp in zip(objs, species)]
    sp_of = [[str(getattr(x, 'symbol', x)) for x in sp] for sp in species]
    segs = []
    for op in ops:
        t = op[0]
        k = op[1]
        tr = trajs[k]
        try:
            if t == 'P':
                segs.append(('P', np.array(tr.positions).reshape(-1)))
            elif t == 'D':
                segs.append(('D', np.array(tr.displacements).reshape(-1)))
            elif t == 'C':
                segs.append(('C', np.array(tr.cumulative_displacements).reshape(-1)))
            elif t == 'R':
                d = tr.distances_from_base_position()  # [atom, frame]
                segs.append(('R', (np.array(d).T ** 2).reshape(-1)))
            elif t == 'B':
                segs.append(('B', np.array(tr.base_positions).reshape(-1)))
            elif t == 'F':
                names = sorted({s for s, b in zip(sp_of[k], op[2]) if b})
                # masks are always unions of whole species; the names may be handed over in any Collection[str] (op[3])
                kind = op[3] if len(op) > 3 else 'list'
                arg = {'list': names, 'tuple': tuple(names), 'set': set(names), 'frozenset': frozenset(names), 'dict-keys': dict.fromkeys(names).keys(),
                       'str': names[0] if len(names) == 1 else names, 'array': np.array(names)}[kind]
                new = tr.filter(arg)
                trajs.append(new)
                sp_of.append([s for s, b in zip(sp_of[k], op[2]) if b])
                segs.append(('F', len(trajs) - 1))
            elif t == 'S':
                try:
                    new = tr[slice(op[2], op[3], op[4])]
                    trajs.append(new)
                    sp_of.append(sp_of[k])
                    segs.append(('S', len(trajs) - 1))
                except (IndexError, ValueError):
                    trajs.append(None)
                    sp_of.append(sp_of[k])
                    segs.append(('S', 'err'))
            elif t == 'I':
                idx = list(range(len(tr)))[slice(op[2], op[3], op[4])]
                new = tr[idx if op[5] == 'list' else np.array(idx)]
                trajs.append(new)
                sp_of.append(sp_of[k])
                segs.append(('S', len(trajs) - 1))
            elif t == 'E':
                tr.extend(trajs[op[2]])
                segs.append(('E', 'ok'))
            elif t == 'Y':
                names = sorted({s for s, b in zip(sp_of[k], op[2]) if b})
                d = tr.drift(fixed_species=names) if any(op[2]) else tr.drift()
                segs.append(('Y', np.array(d).reshape(-1)))
            elif t == 'X':
                names = sorted({s for s, b in zip(sp_of[k], op[2]) if b})
                new = tr.apply_drift_correction(fixed_species=names) if any(op[2]) else tr.apply_drift_correction()
                trajs.append(new)
                sp_of.append(sp_of[k])
                segs.append(('X', len(trajs) - 1))
            elif t == 'M':
                segs.append(('M', np.array(tr.mean_squared_displacement())))
            elif t == 'Q':
                what = op[2]
                # a query is read-only AND its answer describes the object as it is NOW (after any extend() before it)
                n_frames, n_atoms = len(tr), len(sp_of[k])
                if what == 'volume':
                    vol = tr.to_volume(resolution=1.0)
                    if int(np.sum(vol.data)) != n_frames * n_atoms:
                        raise QueryMismatch(f'volume holds {int(np.sum(vol.data))} samples, the object has {n_frames} frames x {n_atoms} atoms')
                elif what == 'speed':
                    v = np.array(tr.metrics().speed())
                    ref = np.diff(np.array(tr.distances_from_base_position()), prepend=0)  # change of the distance from the base position
                    if v.shape != ref.shape or not np.allclose(v, ref, rtol=1e-9, atol=1e-12):
                        raise QueryMismatch(f'speed has shape {v.shape}, the object has {n_atoms} atoms x {n_frames} frames' if v.shape != ref.shape else 'speed is not the change of the distance from the base position over the current frames')
                elif what == 'msd':
                    v = np.array(tr.mean_squared_displacement())
                    if v.shape != (n_atoms, n_frames):
                        raise QueryMismatch(f'msd has shape {v.shape}, the object has {n_atoms} atoms x {n_frames} frames')
                elif what == 'tracer':
                    from gemdat.metrics import TrajectoryMetrics
                    v = float(tr.metrics().tracer_diffusivity(dimensions=3))
                    ref = float(TrajectoryMetrics(tr).tracer_diffusivity(dimensions=3))
                    if not (v == ref or abs(v - ref) <= 1e-12 * max(abs(v), abs(ref))):
                        raise QueryMismatch(f'tracer diffusivity {v} but a new metrics object on the same trajectory gives {ref}')
                elif what == 'density':
                    tr.metrics().particle_density()
                if MODEL_OF_QUERY[what] is not None:
                    segs.append((MODEL_OF_QUERY[what], None))
        except Exception as e:  # noqa: BLE001
            segs.append((t, f'raised:{type(e).__name__}:{str(e)[:80]}'))
            break
    return segs, trajs, sp_of


def exact_equal(arr: np.ndarray, rats) -> bool:
    arr = np.asarray(arr, dtype=float).reshape(-1)
    if len(arr) != len(rats) or not np.all(np.isfinite(arr)):
        return False
    return all(Fraction(float(a)) == r for a, r in zip(arr.tolist(), rats))


def close_equal(arr, rats, rtol=1e-9, atol=0.0) -> bool:
    arr = np.asarray(arr, dtype=float).reshape(-1)
    if len(arr) != len(rats):
        return False
    want = np.array([float(r) for r in rats])
    return bool(np.allclose(arr, want, rtol=rtol, atol=atol))


def compare(impl_segs, model_segs):
    """-> list of (index, tag, why) for differing segments"""
    diffs = []
    for n, (a, b) in enumerate(zip(impl_segs, model_segs)):
        ta, pa = a
        tb, pb = b
        if ta != tb:
            diffs.append((n, ta, f'op tags differ {ta}/{tb}'))
            break
        if isinstance(pa, str) and pa.startswith('raised'):
            diffs.append((n, ta, pa))
            break
        if pa is None:
            continue
        if isinstance(pb, (str, int)) or isinstance(pa, (str, int)):
            if (pa == 'err') != (pb == 'err'):
                diffs.append((n, ta, f'impl {pa} model {pb}'))
            continue
        if ta == 'R':
            scale = max([abs(float(v)) for v in pb] + [1e-30])
            if not close_equal(pa, pb, rtol=1e-9, atol=1e-12 * scale):
                diffs.append((n, ta, 'squared distances differ beyond 1e-9'))
        elif ta == 'M':
            pass  # handled by the C06 harness
        elif ta == 'Y':
            if not close_equal(pa, pb, rtol=1e-12, atol=1e-15):
                diffs.append((n, ta, 'drift differs'))
        else:
            if not exact_equal(pa, pb):
                diffs.append((n, ta, 'values differ (exact comparison)'))
    if len(impl_segs) != len(model_segs) and not diffs:
        diffs.append((min(len(impl_segs), len(model_segs)), '?', f'segment counts {len(impl_segs)}/{len(model_segs)}'))
    return diffs


def no_tie(coords: np.ndarray) -> bool:
    """no consecutive raw difference is a half-integer (the minimum image is unique)"""
    d = np.diff(np.asarray(coords, float), axis=0)
    return not np.any(np.abs(np.mod(d, 1) - 0.5) < 1e-12)


def rand_coords(rng, T, A, lo=-3, hi=3, step_scale=None):
    """dyadic k/64 coordinates; random walk with occasional big hops so that faces are crossed"""
    if step_scale is None:
        c = rng.integers(lo * 64, hi * 64 + 1, size=(T, A, 3)) / 64
    else:
        start = rng.integers(lo * 64, hi * 64 + 1, size=(1, A, 3))
        steps = rng.integers(-step_scale, step_scale + 1, size=(T - 1, A, 3))
        c = np.concatenate([start, start + np.cumsum(steps, axis=0)], axis=0) / 64
    return c


def fix_ties(rng, c):
    """nudge coordinates so that no consecutive difference is a half-integer"""
    c = c.copy()
    for _ in range(50):
        d = np.diff(c, axis=0)
        bad = np.abs(np.mod(d, 1) - 0.5) < 1e-12
        if not bad.any():
            return c
        t, a, x = np.argwhere(bad)[0]
        c[t + 1, a, x] += 1 / 64
    return c
