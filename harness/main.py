"""Entry point: ./check <Cxx> quick|thorough | replay <path>"""
from __future__ import annotations

import importlib
import os
import sys
import traceback


def main(argv):
    if len(argv) < 2:
        print(__doc__)
        return 2
    pid = argv[0].upper()
    mode = argv[1]
    os.environ.setdefault('GEMDAT_VERIF', '1')
    os.environ.setdefault('OMP_NUM_THREADS', '1')
    try:
        mod = importlib.import_module(f'harness.{pid.lower()}')
        from harness import core
        if mode == 'replay':
            return core.run_replay(mod.SPEC, argv[2])
        tier = os.environ.get('VERIF_TIER', mode)
        if tier not in ('quick', 'thorough'):
            tier = mode
        seed = int(os.environ.get('VERIF_SEED', '0'))
        return core.run_property(mod.SPEC, tier, seed)
    except Exception:
        traceback.print_exc()
        print(f'HARNESS-ERROR property={pid}')
        return 2


if __name__ == '__main__':
    sys.exit(main(sys.argv[1:]))
