"""Entry point: ./check <Cxx> quick|thorough | replay <path>"""
from __future__ import annotations

import importlib
import os
import sys
import traceback


def main(argv):
    if len(argv) < 2:
        print(__doc__)
        return 2
    pid = argv[0].upper()
    mode = argv[1]
    os.environ.setdefault('GEMDAT_VERIF', '1')
    os.environ.setdefault('OMP_NUM_THREADS', '1')
    try:
        try:
            mod = importlib.import_module(f'harness.{pid.lower()}')
        except (ImportError, AttributeError) as e:
            tb = traceback.format_exc()
            if 'gemdat' not in tb:
                raise
            # a function or class of /repo that the correspondence check drives (an anchor of the property) no longer
            # exists under that name: the correspondence is broken and no input can be searched for through it
            from harness import core
            what = f'correspondence: cannot import what the check drives: {type(e).__name__}: {e}'
            path = core.write_replay(pid, {'property': pid, 'no_failing_input_found': True, 'broken': what, 'traceback': tb[-2000:],
                                           'searched_evaluations': 0})
            tier = os.environ.get('VERIF_TIER', mode) if mode in ('quick', 'thorough') else 'quick'
            core.write_evidence(pid, {'property_id': pid, 'tier': tier if tier in ('quick', 'thorough') else 'quick',
                                      'seed': int(os.environ.get('VERIF_SEED', '0')), 'level': 'other',
                                      'coverage': {'explanation': 'nothing could be run: ' + what,
                                                   'obligations': 1, 'discharged': 0, 'checker_cmd': 'import of the harness module', 'trusted_base': [],
                                                   'theorems': [], 'evaluations': 0, 'distinct_nontrivial': 0, 'rule': 'nothing could be run', 'samples': [what],
                                                   'broken_obligation': what},
                                      'wall_s': 0.0, 'violations': 1})
            print(f'VIOLATION property={pid} replay={path.relative_to(core.VERIF)} no-failing-input-found')
            return 1
        from harness import core
        if mode == 'replay':
            return core.run_replay(mod.SPEC, argv[2])
        tier = os.environ.get('VERIF_TIER', mode)
        if tier not in ('quick', 'thorough'):
            tier = mode
        seed = int(os.environ.get('VERIF_SEED', '0'))
        return core.run_property(mod.SPEC, tier, seed)
    except Exception:
        traceback.print_exc()
        print(f'HARNESS-ERROR property={pid}')
        return 2


if __name__ == '__main__':
    sys.exit(main(sys.argv[1:]))
